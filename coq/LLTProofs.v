(* LLTProofs.v -- the exact LDL^T oracle of KKTDense.v (llt_compute / llt_solve) meets its contract:
   for every size n, every well-shaped lower-triangular row list:
     - llt_compute never returns Err (pivots are checked > 0 before being divided by);
     - if it returns [Some f] then L D L^T = K (entrywise, [ldl_eqs]) and llt_solve f b solves K x = b. *)
From PIQP Require Import Base Data KKTDense LinAlg.
From Coq Require Import Lia.
Local Open Scope Qc_scope.

Definition wf_lower (rows : list Vec) : Prop :=
  forall i, (i < length rows)%nat -> length (nth i rows []) = S i.

Definition Lfun (Ls : list Vec) (i k : nat) : Qc := nth k (nth i Ls []) 0.
Definition Dfun (D : Vec) (k : nat) : Qc := nth k D 0.
Definition wf_L (Ls : list Vec) : Prop := forall i, (i < length Ls)%nat -> length (nth i Ls []) = i.

(* the factorisation identity  A = L D L^T  on the lower triangle, L unit lower triangular (strict part stored) *)
Definition ldl_eqs (N : nat) (A L : nat -> nat -> Qc) (Dv : nat -> Qc) : Prop :=
  (forall i, (i < N)%nat -> 0 < Dv i) /\
  (forall i j, (j < i)%nat -> (i < N)%nat -> A i j = sum j (fun k => L i k * Dv k * L j k) + L i j * Dv j) /\
  (forall i, (i < N)%nat -> A i i = sum i (fun k => L i k * Dv k * L i k) + Dv i).

Lemma ldl_eqs_ext N A L L' Dv Dv' :
  (forall i k, (k < i)%nat -> (i < N)%nat -> L i k = L' i k) -> (forall k, (k < N)%nat -> Dv k = Dv' k) ->
  ldl_eqs N A L Dv -> ldl_eqs N A L' Dv'.
Proof.
  intros HL HD (H1 & H2 & H3). repeat split.
  - intros i Hi. rewrite <- HD by assumption. auto.
  - intros i j Hj Hi. rewrite (H2 i j Hj Hi). rewrite (HL i j), (HD j) by nlia. f_equal.
    apply sum_ext. intros k Hk. rewrite (HL i k), (HL j k), (HD k) by nlia. reflexivity.
  - intros i Hi. rewrite (H3 i Hi). rewrite (HD i) by nlia. f_equal.
    apply sum_ext. intros k Hk. rewrite (HL i k), (HD k) by nlia. reflexivity.
Qed.

Lemma skipn_cons_nth {A} (l : list A) j d : (j < length l)%nat -> skipn j l = nth j l d :: skipn (S j) l.
Proof.
  revert j. induction l as [|a l IH]; intros j H; [cbn in H; nlia|].
  destruct j; [reflexivity|]. cbn [skipn nth]. rewrite (IH j) by (cbn in H; nlia). reflexivity.
Qed.

Lemma skipn_all' {A} (l : list A) j : (length l <= j)%nat -> skipn j l = [].
Proof. intros. apply skipn_all2. assumption. Qed.

Lemma nth_app_last {A} (l : list A) x d : nth (length l) (l ++ [x]) d = x.
Proof. rewrite app_nth2 by nlia. rewrite Nat.sub_diag. reflexivity. Qed.

Lemma nth_app_last' {A} (l : list A) x d n : n = length l -> nth n (l ++ [x]) d = x.
Proof. intros ->. apply nth_app_last. Qed.

(* ---------------------------------------------------------------- one row of L *)
Definition row_eqs (Ls : list Vec) (Dall Ai r : Vec) (J : nat) : Prop :=
  forall j, (j < J)%nat ->
    nth j r 0 * nth j Dall 0 = nth j Ai 0 - sum j (fun k => nth k r 0 * nth k Dall 0 * Lfun Ls j k).

Lemma ldl_row_spec Ls Dall Ai :
  wf_L Ls -> length Dall = length Ls -> (length Ls <= length Ai)%nat ->
  (forall k, (k < length Dall)%nat -> nth k Dall 0 <> 0) ->
  forall m j li, m = (length Ls - j)%nat -> length li = j -> (j <= length Ls)%nat ->
    row_eqs Ls Dall Ai li j ->
    exists r, ldl_row (skipn j Ai) (skipn j Ls) (skipn j Dall) Dall li = Ok r /\
              length r = length Ls /\ row_eqs Ls Dall Ai r (length Ls).
Proof.
  intros HL HD HA Hnz. induction m as [|m IH]; intros j li Hm Hli Hj Hrow.
  - assert (E : j = length Ls) by nlia.
    rewrite (skipn_all' Ls) by nlia. exists li. split; [destruct (skipn j Ai); reflexivity|].
    split; [nlia|]. rewrite <- E. exact Hrow.
  - assert (Hj' : (j < length Ls)%nat) by nlia.
    rewrite (skipn_cons_nth Ls j []), (skipn_cons_nth Dall j 0), (skipn_cons_nth Ai j 0) by nlia.
    cbn [ldl_row]. rewrite qdiv_nz by (apply Hnz; nlia). cbn [bind].
    set (lij := (nth j Ai 0 - dot3 li Dall (nth j Ls [])) / nth j Dall 0).
    apply (IH (S j) (li ++ [lij])); [nlia | rewrite app_length; cbn; nlia | nlia |].
    intros j0 Hj0.
    assert (Hsum : forall J, (J <= j)%nat ->
              sum J (fun k => nth k (li ++ [lij]) 0 * nth k Dall 0 * Lfun Ls j0 k)
              = sum J (fun k => nth k li 0 * nth k Dall 0 * Lfun Ls j0 k)).
    { intros J HJ. apply sum_ext. intros k Hk. rewrite app_nth1 by nlia. reflexivity. }
    destruct (Nat.eq_dec j0 j) as [->|Hne].
    + rewrite <- Hli at 1. rewrite nth_app_last. rewrite Hsum by nlia.
      unfold lij, dot3. rewrite (dot3_sum _ _ _ j) by nlia.
      unfold Lfun. specialize (Hnz j ltac:(nlia)). qfield. exact Hnz.
    + rewrite app_nth1 by nlia. rewrite Hsum by nlia. apply Hrow. nlia.
Qed.

(* ---------------------------------------------------------------- all rows *)
Definition Afun (rows : list Vec) (i j : nat) : Qc := nth j (nth i rows []) 0.

Definition ldl_inv (rows Ls : list Vec) (D : Vec) : Prop :=
  length D = length Ls /\ wf_L Ls /\ ldl_eqs (length Ls) (Afun rows) (Lfun Ls) (Dfun D).

Lemma ldl_rows_spec rows : wf_lower rows ->
  forall m Ls D, m = (length rows - length Ls)%nat -> (length Ls <= length rows)%nat ->
    ldl_inv rows Ls D ->
    exists o, ldl_rows (skipn (length Ls) rows) Ls D = Ok o /\
      forall f, o = Some f -> length (f_L f) = length rows /\ ldl_inv rows (f_L f) (f_D f).
Proof.
  intros Hwf. induction m as [|m IH]; intros Ls D Hm HN Hinv.
  - rewrite skipn_all' by nlia. eexists. split; [reflexivity|]. intros f [= <-]. cbn. split; [nlia|assumption].
  - remember (length Ls) as N eqn:HNdef.
    rewrite (skipn_cons_nth rows N []) by nlia. cbn [ldl_rows].
    set (Ai := nth N rows []).
    assert (HAi : length Ai = S N) by (apply Hwf; nlia).
    destruct Hinv as (HD & HL & Hpos & Hoff & Hdiag).
    assert (Hnz : forall k, (k < length D)%nat -> nth k D 0 <> 0).
    { intros k Hk. apply Qclt_neq0. apply (Hpos k). nlia. }
    destruct (ldl_row_spec Ls D Ai HL HD ltac:(nlia) Hnz N O [] ltac:(nlia) eq_refl ltac:(nlia)) as (li & Hli & Hlen & Hrow).
    { intros j Hj. nlia. }
    cbn [skipn] in Hli. rewrite Hli. cbn [bind].
    rewrite <- HNdef. rewrite (get_lt Ai N 0) by nlia. cbn [bind].
    set (d := nth N Ai 0 - dot3 li D li).
    destruct (qltb 0 d) eqn:Hd.
    2:{ eexists. split; [reflexivity|]. discriminate. }
    apply qltb_lt in Hd.
    assert (HN' : length (Ls ++ [li]) = S N) by (rewrite app_length; cbn; nlia).
    specialize (IH (Ls ++ [li]) (D ++ [d])). rewrite HN' in IH. apply IH; [nlia | nlia |].
    split; [rewrite !app_length; cbn; nlia|]. split.
    { intros i Hi. rewrite HN' in Hi. destruct (Nat.eq_dec i N) as [->|Hne].
      - rewrite nth_app_last' by assumption. nlia.
      - rewrite app_nth1 by nlia. apply HL. nlia. }
    rewrite HN'.
    assert (HLold : forall i k, (i < N)%nat -> Lfun (Ls ++ [li]) i k = Lfun Ls i k).
    { intros i k Hi. unfold Lfun. rewrite app_nth1 by nlia. reflexivity. }
    assert (HLnew : forall k, Lfun (Ls ++ [li]) N k = nth k li 0).
    { intros k. unfold Lfun. rewrite nth_app_last' by assumption. reflexivity. }
    assert (HDold : forall k, (k < N)%nat -> Dfun (D ++ [d]) k = Dfun D k).
    { intros k Hk. unfold Dfun. rewrite app_nth1 by nlia. reflexivity. }
    assert (HDnew : Dfun (D ++ [d]) N = d).
    { unfold Dfun. apply nth_app_last'. nlia. }
    repeat split.
    + intros i Hi. destruct (Nat.eq_dec i N) as [->|Hne]; [rewrite HDnew; exact Hd|].
      rewrite HDold by nlia. apply Hpos. nlia.
    + intros i j Hj Hi. destruct (Nat.eq_dec i N) as [->|Hne].
      * rewrite !HLnew, HDold by nlia.
        rewrite (sum_ext j _ (fun k => nth k li 0 * nth k D 0 * Lfun Ls j k)).
        2:{ intros k Hk. rewrite HLnew, HDold, HLold by nlia. reflexivity. }
        specialize (Hrow j ltac:(nlia)). unfold Afun. fold Ai. unfold Dfun.
        assert (E : forall a b c : Qc, a = b - c -> b = c + a) by (intros; subst; ring).
        apply E. exact Hrow.
      * rewrite !HLold, HDold by nlia.
        rewrite (sum_ext j _ (fun k => Lfun Ls i k * Dfun D k * Lfun Ls j k)).
        2:{ intros k Hk. rewrite !HLold, HDold by nlia. reflexivity. }
        apply Hoff; nlia.
    + intros i Hi. destruct (Nat.eq_dec i N) as [->|Hne].
      * rewrite HDnew.
        rewrite (sum_ext N _ (fun k => nth k li 0 * nth k D 0 * nth k li 0)).
        2:{ intros k Hk. rewrite HLnew, HDold by nlia. reflexivity. }
        unfold d, dot3. rewrite (dot3_sum _ _ _ N) by nlia. unfold Afun. fold Ai. qring.
      * rewrite HDold by nlia.
        rewrite (sum_ext i _ (fun k => Lfun Ls i k * Dfun D k * Lfun Ls i k)).
        2:{ intros k Hk. rewrite !HLold, HDold by nlia. reflexivity. }
        apply Hdiag; nlia.
Qed.

Lemma ldl_inv_nil rows : ldl_inv rows [] [].
Proof.
  split; [reflexivity|]. split; [intros i Hi; cbn in Hi; nlia|].
  repeat split; cbn; intros; nlia.
Qed.

(* llt_compute never fails with an error on well-shaped input *)
Theorem llt_compute_no_err rows : wf_lower rows -> exists o, llt_compute rows = Ok o.
Proof.
  intros Hwf. destruct (ldl_rows_spec rows Hwf _ [] [] eq_refl ltac:(cbn; nlia) (ldl_inv_nil rows)) as (o & Ho & _).
  exists o. exact Ho.
Qed.

(* factorisation identity *)
Theorem llt_compute_factorisation rows f : wf_lower rows -> llt_compute rows = Ok (Some f) ->
  length (f_L f) = length rows /\ length (f_D f) = length rows /\ wf_L (f_L f) /\
  ldl_eqs (length rows) (Afun rows) (Lfun (f_L f)) (Dfun (f_D f)).
Proof.
  intros Hwf H. destruct (ldl_rows_spec rows Hwf _ [] [] eq_refl ltac:(cbn; nlia) (ldl_inv_nil rows)) as (o & Ho & Hspec).
  unfold llt_compute in H. cbn [skipn length] in Ho. rewrite H in Ho. injection Ho as <-.
  destruct (Hspec f eq_refl) as (Hlen & HD & HL & Heqs). rewrite Hlen in *. auto.
Qed.

(* ---------------------------------------------------------------- forward substitution *)
Definition fwd_eqs (Ls : list Vec) (b y : Vec) (J : nat) : Prop :=
  forall i, (i < J)%nat -> nth i b 0 = nth i y 0 + sum i (fun k => Lfun Ls i k * nth k y 0).

Lemma fwd_spec Ls b : wf_L Ls -> length b = length Ls ->
  forall m j acc, m = (length Ls - j)%nat -> length acc = j -> (j <= length Ls)%nat ->
    fwd_eqs Ls b acc j ->
    length (fwd (skipn j Ls) (skipn j b) acc) = length Ls /\
    fwd_eqs Ls b (fwd (skipn j Ls) (skipn j b) acc) (length Ls).
Proof.
  intros HL Hb. induction m as [|m IH]; intros j acc Hm Hacc Hj Heq.
  - assert (E : j = length Ls) by nlia. rewrite (skipn_all' Ls) by nlia. cbn [fwd].
    split; [nlia|]. rewrite <- E. exact Heq.
  - rewrite (skipn_cons_nth Ls j []), (skipn_cons_nth b j 0) by nlia. cbn [fwd].
    set (yj := nth j b 0 - dot (nth j Ls []) acc).
    apply (IH (S j)); [nlia | rewrite app_length; cbn; nlia | nlia |].
    intros i Hi.
    assert (Hsum : forall J, (J <= j)%nat ->
              sum J (fun k => Lfun Ls i k * nth k (acc ++ [yj]) 0) = sum J (fun k => Lfun Ls i k * nth k acc 0)).
    { intros J HJ. apply sum_ext. intros k Hk. rewrite app_nth1 by nlia. reflexivity. }
    destruct (Nat.eq_dec i j) as [->|Hne].
    + rewrite nth_app_last' by nlia. rewrite Hsum by nlia.
      unfold yj. rewrite (dot_sum _ _ j) by (rewrite HL by nlia; nlia). unfold Lfun. qring.
    + rewrite app_nth1 by nlia. rewrite Hsum by nlia. apply Heq. nlia.
Qed.

(* ---------------------------------------------------------------- backward substitution *)

Lemma combine_app {A B} (a a' : list A) (b b' : list B) : length a = length b ->
  combine (a ++ a') (b ++ b') = combine a b ++ combine a' b'.
Proof.
  revert b. induction a as [|x a IH]; intros [|y b] H; cbn in *; try discriminate; [reflexivity|].
  f_equal. apply IH. nlia.
Qed.

Lemma combine_rev {A B} (a : list A) (b : list B) : length a = length b ->
  combine (rev a) (rev b) = rev (combine a b).
Proof.
  revert b. induction a as [|x a IH]; intros [|y b] H; cbn in *; try discriminate; [reflexivity|].
  injection H as H. rewrite combine_app by (rewrite !rev_length; assumption).
  rewrite IH by assumption. reflexivity.
Qed.

Lemma rev_vmap2 f a b : length a = length b -> vmap2 f (rev a) (rev b) = rev (vmap2 f a b).
Proof. intros H. unfold vmap2. rewrite combine_rev by assumption. apply map_rev. Qed.

Lemma vscale_rev c a : vscale c (rev a) = rev (vscale c a).
Proof. unfold vscale. apply map_rev. Qed.

Lemma list_last_split {A} (l : list A) n : length l = S n -> exists l' x, l = l' ++ [x] /\ length l' = n.
Proof.
  intros H. destruct (exists_last (l := l)) as (l' & x & ->); [intros ->; discriminate|].
  exists l', x. split; [reflexivity|]. rewrite app_length in H. cbn in H. nlia.
Qed.

Lemma bwd_spec Ls : wf_L Ls -> forall y, length y = length Ls ->
  length (bwd (rev Ls) (rev y)) = length Ls /\
  forall j, (j < length Ls)%nat ->
    nth j y 0 = nth j (bwd (rev Ls) (rev y)) 0
              + sum (length Ls) (fun k => if Nat.ltb j k then Lfun Ls k j * nth k (bwd (rev Ls) (rev y)) 0 else 0).
Proof.
  induction Ls as [|Ln Ls IH] using rev_ind; intros HL y Hy.
  - destruct y; [|discriminate]. cbn. split; [reflexivity|]. intros; nlia.
  - rewrite app_length in Hy. cbn [length] in Hy. rewrite Nat.add_1_r in Hy.
    destruct (list_last_split y _ Hy) as (y' & yn & -> & Hy').
    remember (length Ls) as n eqn:Hn.
    assert (HLn : length Ln = n).
    { specialize (HL n). rewrite app_length in HL. cbn in HL. rewrite nth_app_last' in HL by assumption. apply HL. nlia. }
    assert (HL' : wf_L Ls).
    { intros i Hi. specialize (HL i). rewrite app_length, app_nth1 in HL by assumption. apply HL. nlia. }
    rewrite !rev_app_distr. cbn [rev app bwd].
    rewrite vscale_rev. unfold vsub. rewrite rev_vmap2 by (rewrite vscale_length; nlia).
    set (y2 := vmap2 Qcminus y' (vscale yn Ln)).
    assert (Hy2 : length y2 = n) by (unfold y2; rewrite vmap2_length, vscale_length; nlia).
    destruct (IH HL' y2 ltac:(nlia)) as [IH1 IH2].
    set (x' := bwd (rev Ls) (rev y2)) in *.
    rewrite !app_length. cbn [length]. rewrite IH1, <- Hn. split; [reflexivity|].
    rewrite Nat.add_1_r. intros j Hj. rewrite sum_S.
    assert (HLf : forall k i, (k < n)%nat -> Lfun (Ls ++ [Ln]) k i = Lfun Ls k i).
    { intros k i Hk. unfold Lfun. rewrite app_nth1 by nlia. reflexivity. }
    rewrite (sum_ext n _ (fun k => if Nat.ltb j k then Lfun Ls k j * nth k x' 0 else 0)).
    2:{ intros k Hk. rewrite HLf by assumption. rewrite app_nth1 by nlia. reflexivity. }
    destruct (Nat.eq_dec j n) as [->|Hne].
    + rewrite !nth_app_last' by nlia.
      rewrite Nat.ltb_irrefl. rewrite sum_zero_ext; [qring|].
      intros k Hk. destruct (Nat.ltb_spec n k); [nlia|reflexivity].
    + rewrite (app_nth1 y'), (app_nth1 x') by nlia. destruct (Nat.ltb_spec j n); [|nlia].
      rewrite nth_app_last' by nlia.
      rewrite Qcplus_assoc. rewrite <- (IH2 j) by nlia. unfold y2. fold (vsub y' (vscale yn Ln)).
      rewrite nth_vsub, nth_vscale by (rewrite vscale_length; nlia).
      unfold Lfun. rewrite nth_app_last' by nlia. qring.
Qed.

(* ---------------------------------------------------------------- solve *)
Definition Lfull (Ls : list Vec) (i k : nat) : Qc :=
  if Nat.ltb k i then Lfun Ls i k else if Nat.eqb k i then 1 else 0.

Definition Asym (rows : list Vec) (i j : nat) : Qc :=
  if Nat.leb j i then Afun rows i j else Afun rows j i.

Lemma lower_sym_mul_length rows x : length (lower_sym_mul rows x) = length rows.
Proof. unfold lower_sym_mul. rewrite map_length, seq_length. reflexivity. Qed.

Lemma nth_lower_sym_mul rows x i : (i < length rows)%nat ->
  nth i (lower_sym_mul rows x) 0 = sum (length rows) (fun j => Asym rows i j * nth j x 0).
Proof.
  intros Hi. unfold lower_sym_mul. rewrite nth_map_seq by assumption.
  rewrite (fold_left_seq_sum (fun j => (if Nat.leb j i then nth j (nth i rows []) 0 else nth i (nth j rows []) 0) * nth j x 0)).
  apply sum_ext. intros j Hj. unfold Asym, Afun. destruct (Nat.leb j i); reflexivity.
Qed.

Lemma Lfull_sum_off n L Ls Dv i j : (forall i k, L i k = Lfun Ls i k) ->
  (j < i)%nat -> (i < n)%nat ->
  sum n (fun k => Lfull Ls i k * Dv k * Lfull Ls j k) = sum j (fun k => L i k * Dv k * L j k) + L i j * Dv j.
Proof.
  intros HLs Hj Hi.
  rewrite (sum_cut n (S j)); [|nlia|].
  - rewrite sum_S. f_equal.
    + apply sum_ext. intros k Hk. unfold Lfull.
      destruct (Nat.ltb_spec k i); [|nlia]. destruct (Nat.ltb_spec k j); [|nlia]. rewrite !HLs. reflexivity.
    + unfold Lfull. destruct (Nat.ltb_spec j i); [|nlia]. rewrite Nat.ltb_irrefl, Nat.eqb_refl. rewrite HLs. ring.
  - intros k Hk. unfold Lfull at 2. destruct (Nat.ltb_spec k j); [nlia|]. destruct (Nat.eqb_spec k j); [nlia|]. ring.
Qed.

Lemma Lfull_sum_diag n L Ls Dv i : (forall i k, L i k = Lfun Ls i k) -> (i < n)%nat ->
  sum n (fun k => Lfull Ls i k * Dv k * Lfull Ls i k) = sum i (fun k => L i k * Dv k * L i k) + Dv i.
Proof.
  intros HLs Hi.
  rewrite (sum_cut n (S i)); [|nlia|].
  - rewrite sum_S. f_equal.
    + apply sum_ext. intros k Hk. unfold Lfull. destruct (Nat.ltb_spec k i); [|nlia]. rewrite !HLs. reflexivity.
    + unfold Lfull. rewrite Nat.ltb_irrefl, Nat.eqb_refl. ring.
  - intros k Hk. unfold Lfull. destruct (Nat.ltb_spec k i); [nlia|]. destruct (Nat.eqb_spec k i); [nlia|]. ring.
Qed.

Lemma Asym_LDLt rows Ls Dv : ldl_eqs (length rows) (Afun rows) (Lfun Ls) Dv ->
  forall i j, (i < length rows)%nat -> (j < length rows)%nat ->
    Asym rows i j = sum (length rows) (fun k => Lfull Ls i k * Dv k * Lfull Ls j k).
Proof.
  intros (_ & Hoff & Hdiag) i j Hi Hj. unfold Asym.
  destruct (Nat.leb_spec j i) as [Hle|Hlt].
  - destruct (Nat.eq_dec j i) as [->|Hne].
    + rewrite (Lfull_sum_diag _ (Lfun Ls)) by auto. apply Hdiag. assumption.
    + rewrite (Lfull_sum_off _ (Lfun Ls)) by (auto; nlia). apply Hoff; nlia.
  - rewrite (sum_ext _ _ (fun k => Lfull Ls j k * Dv k * Lfull Ls i k)) by (intros; ring).
    rewrite (Lfull_sum_off _ (Lfun Ls)) by (auto; nlia). apply Hoff; nlia.
Qed.

(* solve part, from the factorisation identity *)
Theorem llt_solve_from_factorisation rows f b :
  length (f_L f) = length rows -> length (f_D f) = length rows -> wf_L (f_L f) ->
  ldl_eqs (length rows) (Afun rows) (Lfun (f_L f)) (Dfun (f_D f)) ->
  length b = length rows ->
  exists x, llt_solve f b = Ok x /\ length x = length rows /\ lower_sym_mul rows x = b.
Proof.
  intros HLlen HDlen HL Heqs Hb. set (n := length rows) in *.
  unfold llt_solve.
  destruct (fwd_spec (f_L f) b HL ltac:(nlia) _ O [] eq_refl eq_refl ltac:(nlia)) as [Hylen Hy].
  { intros i Hi. nlia. }
  cbn [skipn] in Hylen, Hy. set (y := fwd (f_L f) b []) in *. rewrite HLlen in Hylen, Hy.
  assert (Hpos := proj1 Heqs).
  destruct (vdiv_exists y (f_D f)) as [y' Hy'].
  { intros x Hx. apply (In_nth _ _ 0) in Hx as (k & Hk & <-). apply Qclt_neq0. apply (Hpos k). nlia. }
  rewrite Hy'. cbn [bind].
  apply vdiv_ok in Hy' as [Hy'len Hy'n]; [|nlia]. rewrite Hylen in Hy'len, Hy'n.
  destruct (bwd_spec (f_L f) HL y' ltac:(nlia)) as [Hxlen Hx]. rewrite HLlen in Hxlen, Hx.
  set (x := bwd (rev (f_L f)) (rev y')) in *.
  exists x. split; [reflexivity|]. split; [exact Hxlen|].
  apply vec_ext; [rewrite lower_sym_mul_length; nlia|].
  rewrite lower_sym_mul_length. intros i Hi. rewrite nth_lower_sym_mul by assumption. fold n.
  (* K x = L D L^T x *)
  rewrite (sum_ext n _ (fun j => sum n (fun k => Lfull (f_L f) i k * (Dfun (f_D f) k * (Lfull (f_L f) j k * nth j x 0))))).
  2:{ intros j Hj. rewrite (Asym_LDLt rows (f_L f) (Dfun (f_D f)) Heqs i j Hi Hj). fold n.
      rewrite <- sum_scale_r. apply sum_ext. intros. ring. }
  rewrite sum_swap.
  rewrite (sum_ext n _ (fun k => Lfull (f_L f) i k * nth k y 0)).
  2:{ intros k Hk. rewrite sum_scale_l, sum_scale_l. f_equal.
      (* L^T x = y' *)
      rewrite (sum_ext n _ (fun j => (if Nat.eqb j k then nth j x 0 else 0)
                                   + (if Nat.ltb k j then Lfun (f_L f) j k * nth j x 0 else 0))).
      2:{ intros j Hj. unfold Lfull. destruct (Nat.ltb_spec k j); destruct (Nat.eqb_spec k j); destruct (Nat.eqb_spec j k); try nlia; qring. }
      rewrite sum_add, sum_delta by assumption. rewrite <- (Hx k Hk).
      destruct (Hy'n k Hk) as [Hnz ->]. unfold Dfun. qfield. exact Hnz. }
  (* L y = b *)
  rewrite (Hy i Hi).
  rewrite (sum_cut n (S i)); [|nlia|].
  - rewrite sum_S. unfold Lfull at 2. rewrite Nat.ltb_irrefl, Nat.eqb_refl.
    rewrite (sum_ext i _ (fun k => Lfun (f_L f) i k * nth k y 0)).
    + qring.
    + intros k Hk. unfold Lfull. destruct (Nat.ltb_spec k i); [reflexivity|nlia].
  - intros k Hk. unfold Lfull. destruct (Nat.ltb_spec k i); [nlia|]. destruct (Nat.eqb_spec k i); [nlia|]. qring.
Qed.

(* the oracle meets its contract, all n *)
Theorem llt_solve_correct rows f b :
  wf_lower rows -> llt_compute rows = Ok (Some f) -> length b = length rows ->
  exists x, llt_solve f b = Ok x /\ length x = length rows /\ lower_sym_mul rows x = b.
Proof.
  intros Hwf Hc Hb. destruct (llt_compute_factorisation rows f Hwf Hc) as (H1 & H2 & H3 & H4).
  apply llt_solve_from_factorisation; assumption.
Qed.

(* all pivots of a successful factorisation are positive *)
Theorem llt_compute_pivots_pos rows f : wf_lower rows -> llt_compute rows = Ok (Some f) ->
  forall k, (k < length rows)%nat -> 0 < nth k (f_D f) 0.
Proof.
  intros Hwf Hc. destruct (llt_compute_factorisation rows f Hwf Hc) as (_ & _ & _ & H & _). exact H.
Qed.
