(* KKTSparseRefineModesProofs.v -- the totality / end-to-end theorems of KKTSparseRefineTotalProofs.v instantiated on the states
   the four assembly models reach (identity ordering; KKT_FULL also under an arbitrary fill-reducing ordering):
   the addressing hypothesis kkt_addr_ok is discharged by the assembly theorems (well-formedness, diagonal last) and by the
   ordering theorems.  No axioms. *)
From PIQP Require Import Base CSC CSCProofs LDLSparse LinAlg KKTProofs LDLValuesFinalProofs KKTSparseFull KKTSparseFullProofs KKTSparseFullPerm KKTSparseFullPermProofs
  KKTSparseAll KKTSparseAllProofs KKTSparseEq KKTSparseIneq KKTSparseEqProofs KKTSparseIneqProofs
  KKTSparseSolve KKTSparseSolveProofs KKTSparseSolveElimProofs KKTSparseSolvePermProofs KKTSparseRefactorProofs
  KKTSparseRefine KKTSparseRefineProofs KKTSparseRefineTotalProofs.
Local Open Scope nat_scope.

(* ---- the addressing facts, mode by mode ---- *)
Lemma full_addr_ok d c k : wf_sdata d -> upper_only (sd_P d) = true -> fresh_form d c k ->
  kkt_addr_ok (mode_N MFull d) (mkord (seq 0 (sd_n d + sd_p d + sd_m d)) (fk_pinv k)) (fk_PKPt d k) /\
  upper_only (fk_PKPt d k) = true /\ scal_of k = c.
Proof.
  intros Hwf Hup Hf. destruct (fresh_form_denotes d Hwf c k Hf) as (W & DL & U & _).
  assert (Epi : fk_pinv k = seq 0 (sd_n d + sd_p d + sd_m d)) by (destruct Hf as ((E & _) & _); exact E).
  rewrite Epi. split; [|split; [exact (U Hup) | destruct Hf as (_ & E & _); exact E]].
  split; [exact W|]. split; [reflexivity|]. split; [reflexivity|]. split; [exact DL|]. apply (id_ord_ok (sd_n d + sd_p d + sd_m d)).
Qed.

Lemma full_perm_addr_ok d c perm kid kp : wf_sdata d -> upper_only (sd_P d) = true -> fresh_form d c kid -> perm_img d perm kid kp ->
  perm_wf perm -> length perm = sd_n d + sd_p d + sd_m d -> nodup_cols (fk_PKPt d kid) ->
  exists o, ordering_init perm = Ok o /\ oPinv o = fk_pinv kp /\
    kkt_addr_ok (mode_N MFull d) o (fk_PKPt d kp) /\ upper_only (fk_PKPt d kp) = true /\ nodup_cols (fk_PKPt d kp) /\ scal_of kp = c.
Proof.
  intros Hwf Hup Hf Hp Hpw Lp Hnd.
  destruct (full_perm_denotes_solve d c perm kid kp Hwf Hup Hf Hp Hpw Lp Hnd) as (o & Eo & EP & Epi & Hord & Hden).
  destruct (perm_img_denotes_partial d c perm kid kp Hwf Hup Hf Hp) as (W & DL & _).
  destruct Hden as (_ & Hr & Hc & U & ND & _).
  exists o. split; [exact Eo|]. split; [exact Epi|]. split; [|split; [exact U|split; [exact ND|]]].
  - split; [exact W|]. split; [exact Hr|]. split; [exact Hc|]. split; [exact DL | exact Hord].
  - destruct Hp as (o' & Cpos & a2c & _ & _ & _ & HS). destruct HS as (_ & _ & _ & _ & _ & _ & _ & _ & Es & _).
    rewrite Es. destruct Hf as (_ & E & _). exact E.
Qed.

Lemma eq_addr_ok d X c k : elim_data_ok d (sd_GT d) -> eqF d X c k ->
  kkt_addr_ok (mode_N MEq d) (mkord (seq 0 (sd_n d + sd_m d)) (ek_pinv k)) (sv_K (eq_view d k)) /\
  upper_only (sv_K (eq_view d k)) = true /\ sv_sc (eq_view d k) = c.
Proof.
  intros Hok Hf. destruct (eq_form_denotes d Hok X c k Hf) as (W & U & DL & _).
  destruct (eqF_view d X c k Hf) as (Esc & Epi). unfold eq_view. cbn [sv_sc sv_K]. rewrite Epi.
  split; [|split; [exact U | exact Esc]].
  split; [exact W|]. split; [reflexivity|]. split; [reflexivity|]. split; [exact DL|]. apply (id_ord_ok (sd_n d + sd_m d)).
Qed.

Lemma ineq_addr_ok d X c k : elim_data_ok d (sd_AT d) -> ineqF d X c k ->
  kkt_addr_ok (mode_N MIneq d) (mkord (seq 0 (sd_n d + sd_p d)) (ek_pinv k)) (sv_K (ineq_view d k)) /\
  upper_only (sv_K (ineq_view d k)) = true /\ sv_sc (ineq_view d k) = c.
Proof.
  intros Hok Hf. destruct (ineq_form_denotes d Hok X c k Hf) as (W & U & DL & _).
  destruct (ineqF_view d X c k Hf) as (Esc & Epi). unfold ineq_view. cbn [sv_sc sv_K]. rewrite Epi.
  split; [|split; [exact U | exact Esc]].
  split; [exact W|]. split; [reflexivity|]. split; [reflexivity|]. split; [exact DL|]. apply (id_ord_ok (sd_n d + sd_p d)).
Qed.

Lemma all_addr_ok d c k : wf_sdata d -> upper_only (sd_P d) = true -> all_form d c k ->
  kkt_addr_ok (mode_N MAll d) (mkord (seq 0 (sd_n d)) (ak_pinv k)) (sv_K (all_view d k)) /\
  upper_only (sv_K (all_view d k)) = true /\ sv_sc (all_view d k) = c.
Proof.
  intros Hwf Hup Hf. destruct (all_form_denotes d Hwf Hup c k Hf) as (W & U & DL & _).
  destruct (all_form_view d c k Hf) as (Esc & Epi). unfold all_view. cbn [sv_sc sv_K]. rewrite Epi.
  split; [|split; [exact U | exact Esc]].
  split; [exact W|]. split; [reflexivity|]. split; [reflexivity|]. split; [exact DL|]. apply (id_ord_ok (sd_n d)).
Qed.

(* ---- C13_refine_total_<mode> ---- *)
Theorem refine_total_full rs refine d c k st r :
  wf_sdata d -> upper_only (sd_P d) = true -> fresh_form d c k -> nodup_cols (fk_PKPt d k) ->
  solve_ok d c -> rhs_ok d r -> reusable (fk_PKPt d k) st ->
  let o := mkord (seq 0 (sd_n d + sd_p d + sd_m d)) (fk_pinv k) in
  exists ok st',
    kkt_factorize_r rs refine MFull d (sv_sc (full_view d k)) o (sv_K (full_view d k)) st = Ok (ok, st', fk_PKPt d k) /\
    (ok = true -> reusable (fk_PKPt d k) st' /\
       forall refine', exists v, kkt_solve_r rs refine' MFull d (sv_sc (full_view d k)) o (sv_K (full_view d k)) st' r = Ok v /\ step_ok d v).
Proof.
  intros Hwf Hup Hf Hnd Hso Hro Hre o. destruct (full_addr_ok d c k Hwf Hup Hf) as (HA & U & Esc).
  unfold full_view. cbn [sv_sc sv_K]. rewrite Esc.
  apply (refine_total rs refine MFull d c o (fk_PKPt d k) st r Hwf Hso Hro I HA U Hnd Hre).
Qed.

Theorem refine_total_full_perm rs refine d c perm kid kp st r :
  wf_sdata d -> upper_only (sd_P d) = true -> fresh_form d c kid -> perm_img d perm kid kp ->
  perm_wf perm -> length perm = sd_n d + sd_p d + sd_m d -> nodup_cols (fk_PKPt d kid) ->
  solve_ok d c -> rhs_ok d r -> reusable (fk_PKPt d kp) st ->
  exists o ok st', ordering_init perm = Ok o /\ oPinv o = fk_pinv kp /\
    kkt_factorize_r rs refine MFull d (sv_sc (full_view d kp)) o (sv_K (full_view d kp)) st = Ok (ok, st', fk_PKPt d kp) /\
    (ok = true -> reusable (fk_PKPt d kp) st' /\
       forall refine', exists v, kkt_solve_r rs refine' MFull d (sv_sc (full_view d kp)) o (sv_K (full_view d kp)) st' r = Ok v /\ step_ok d v).
Proof.
  intros Hwf Hup Hf Hp Hpw Lp Hnd Hso Hro Hre.
  destruct (full_perm_addr_ok d c perm kid kp Hwf Hup Hf Hp Hpw Lp Hnd) as (o & Eo & Epi & HA & U & ND & Esc).
  exists o. unfold full_view. cbn [sv_sc sv_K]. rewrite Esc.
  destruct (refine_total rs refine MFull d c o (fk_PKPt d kp) st r Hwf Hso Hro I HA U ND Hre) as (ok & st' & H).
  exists ok, st'. split; [exact Eo|]. split; [exact Epi | exact H].
Qed.

Theorem refine_total_eq rs refine d X c k st r :
  elim_data_ok d (sd_GT d) -> eqF d X c k -> nodup_cols (sv_K (eq_view d k)) ->
  solve_ok d c -> sc_delta c <> 0%Qc -> rhs_ok d r -> reusable (sv_K (eq_view d k)) st ->
  let o := mkord (seq 0 (sd_n d + sd_m d)) (ek_pinv k) in
  exists ok st',
    kkt_factorize_r rs refine MEq d (sv_sc (eq_view d k)) o (sv_K (eq_view d k)) st = Ok (ok, st', sv_K (eq_view d k)) /\
    (ok = true -> reusable (sv_K (eq_view d k)) st' /\
       forall refine', exists v, kkt_solve_r rs refine' MEq d (sv_sc (eq_view d k)) o (sv_K (eq_view d k)) st' r = Ok v /\ step_ok d v).
Proof.
  intros Hok Hf Hnd Hso Hd Hro Hre o. pose proof Hok as (Hwf & _). destruct (eq_addr_ok d X c k Hok Hf) as (HA & U & Esc).
  rewrite Esc. apply (refine_total rs refine MEq d c o _ st r Hwf Hso Hro Hd HA U Hnd Hre).
Qed.

Theorem refine_total_ineq rs refine d X c k st r :
  elim_data_ok d (sd_AT d) -> ineqF d X c k -> nodup_cols (sv_K (ineq_view d k)) ->
  solve_ok d c -> rhs_ok d r -> reusable (sv_K (ineq_view d k)) st ->
  let o := mkord (seq 0 (sd_n d + sd_p d)) (ek_pinv k) in
  exists ok st',
    kkt_factorize_r rs refine MIneq d (sv_sc (ineq_view d k)) o (sv_K (ineq_view d k)) st = Ok (ok, st', sv_K (ineq_view d k)) /\
    (ok = true -> reusable (sv_K (ineq_view d k)) st' /\
       forall refine', exists v, kkt_solve_r rs refine' MIneq d (sv_sc (ineq_view d k)) o (sv_K (ineq_view d k)) st' r = Ok v /\ step_ok d v).
Proof.
  intros Hok Hf Hnd Hso Hro Hre o. pose proof Hok as (Hwf & _). destruct (ineq_addr_ok d X c k Hok Hf) as (HA & U & Esc).
  rewrite Esc. apply (refine_total rs refine MIneq d c o _ st r Hwf Hso Hro I HA U Hnd Hre).
Qed.

Theorem refine_total_all rs refine d c k st r :
  wf_sdata d /\ upper_only (sd_P d) = true -> all_form d c k -> nodup_cols (sv_K (all_view d k)) ->
  solve_ok d c -> sc_delta c <> 0%Qc -> rhs_ok d r -> reusable (sv_K (all_view d k)) st ->
  let o := mkord (seq 0 (sd_n d)) (ak_pinv k) in
  exists ok st',
    kkt_factorize_r rs refine MAll d (sv_sc (all_view d k)) o (sv_K (all_view d k)) st = Ok (ok, st', sv_K (all_view d k)) /\
    (ok = true -> reusable (sv_K (all_view d k)) st' /\
       forall refine', exists v, kkt_solve_r rs refine' MAll d (sv_sc (all_view d k)) o (sv_K (all_view d k)) st' r = Ok v /\ step_ok d v).
Proof.
  intros (Hwf & Hup) Hf Hnd Hso Hd Hro Hre o. destruct (all_addr_ok d c k Hwf Hup Hf) as (HA & U & Esc).
  rewrite Esc. apply (refine_total rs refine MAll d c o _ st r Hwf Hso Hro Hd HA U Hnd Hre).
Qed.

(* ---- KKT_FULL end to end (permuted-system statement) on a fresh_form state ---- *)
Theorem refine_end_to_end_full rs d c k st st' r :
  wf_sdata d -> upper_only (sd_P d) = true -> fresh_form d c k -> nodup_cols (fk_PKPt d k) ->
  solve_ok d c -> rhs_ok d r -> reusable (fk_PKPt d k) st ->
  let o := mkord (seq 0 (sd_n d + sd_p d + sd_m d)) (fk_pinv k) in
  let K := fk_PKPt d k in
  kkt_factorize_r rs true MFull d c o K st = Ok (true, st', K) ->
  exists reg dinv zbar rhs rp sol0 sol v,
    kkt_reg rs d c = Ok reg /\
    kkt_rhs_perm MFull d c o r = Ok (dinv, zbar, rhs, rp) /\ length rp = sd_n d + sd_p d + sd_m d /\
    ldl_solve st' rp = Ok sol0 /\
    (forall i, i < sd_n d + sd_p d + sd_m d ->
       nth i (kresid K rp sol0) 0%Qc =
       ((if i <? sd_n d then qmax 0 (reg - sc_rho c) else - qmax 0 (reg - sc_delta c)) * nth i sol0 0)%Qc) /\
    refined_solve rs true K st' rp = Ok sol /\
    kkt_recover MFull d c o r dinv zbar rhs sol = Ok v /\
    kkt_solve_r rs true MFull d c o K st' r = Ok v /\ step_ok d v /\
    ((1 <= rs_min_rate rs)%Qc -> (kres_norm K rp sol <= kres_norm K rp sol0)%Qc) /\
    ((0 < rs_max_iter rs)%Z ->
     refine_stop rs K st' rp (norm_inf rp) (Z.to_nat (rs_max_iter rs)) sol0 (kresid K rp sol0) (norm_inf (kresid K rp sol0)) = Ok StopTol ->
     (kres_norm K rp sol <= rs_eps_abs rs + rs_eps_rel rs * norm_inf rp)%Qc) /\
    ((reg <= sc_rho c)%Qc -> (reg <= sc_delta c)%Qc -> (0 <= rs_eps_abs rs + rs_eps_rel rs * norm_inf rp)%Qc ->
     sol = sol0 /\ kres_norm K rp sol = 0%Qc).
Proof.
  intros Hwf Hup Hf Hnd Hso Hro Hre o K Ef. destruct (full_addr_ok d c k Hwf Hup Hf) as (HA & U & _).
  destruct (refine_end_to_end rs MFull d c o K st st' r Hwf Hso Hro I HA U Hnd Hre Ef)
    as (reg & dinv & zbar & rhs & rp & sol0 & sol & v & H1 & H2 & H3 & H4 & H5 & H6).
  exists reg, dinv, zbar, rhs, rp, sol0, sol, v. split; [exact H1|]. split; [exact H2|]. split; [exact H3|]. split; [exact H4|].
  split; [|exact H6].
  intros i Hi. rewrite (H5 i Hi). unfold o. cbn [oP]. rewrite seq_nth by exact Hi. reflexivity.
Qed.

(* ---- non-vacuity: every hypothesis of refine_total / refine_end_to_end holds on the evaluated instance of
        KKTSparseRefineProofs.v (KKT_FULL, n = 1, p = 1, reg = 1/4 > rho = delta = 1/1024), and the regularised factorisation
        reports success ---- *)
Definition ex_r : step8 := mkstep8 [exq 1 1] [exq 1 1] [] [] [] [] [] [].

Example ex_total_hyps :
  wf_sdata ex_d /\ solve_ok ex_d ex_c /\ rhs_ok ex_d ex_r /\ delta_ok MFull ex_c /\
  kkt_addr_ok (mode_N MFull ex_d) ex_o ex_K /\ upper_only ex_K = true /\ nodup_cols ex_K /\
  exists st0 st, kkt_symbolic ex_K = Ok st0 /\ reusable ex_K st0 /\
    kkt_factorize_r (ex_rs (exq 1 4) (exq 5 1) 10) true MFull ex_d ex_c ex_o ex_K st0 = Ok (true, st, ex_K).
Proof.
  assert (W : wf_csc ex_K = true) by (vm_compute; reflexivity).
  assert (U : upper_only ex_K = true) by (vm_compute; reflexivity).
  split. { unfold wf_sdata. repeat split; vm_compute; reflexivity. }
  split. { unfold solve_ok. cbn. repeat split; try lia; intros; lia. }
  split. { unfold rhs_ok. cbn. repeat split; lia. }
  split; [exact I|].
  split.
  { split; [exact W|]. split; [reflexivity|]. split; [reflexivity|]. split.
    - intros j Hj. cbn in Hj. unfold cp. destruct j as [|[|j]]; cbn; try lia; split; auto; lia.
    - change ex_o with (id_ord 2). apply (id_ord_ok 2). }
  split; [exact U|].
  split. { apply nodup_colsb_ok. vm_compute. reflexivity. }
  destruct ex_refine_improves_exists as (st0 & st & sol0 & sol & E0 & E1 & _).
  exists st0, st. split; [exact E0|]. split; [|exact E1].
  apply (symbolic_reusable ex_K st0 W eq_refl U E0).
Qed.

(* ... so the conclusions of refine_end_to_end are inhabited on it *)
Example ex_end_to_end : exists st' reg rp sol0 sol v,
  kkt_reg (ex_rs (exq 1 4) (exq 5 1) 10) ex_d ex_c = Ok reg /\ length rp = 2 /\
  ldl_solve st' rp = Ok sol0 /\
  refined_solve (ex_rs (exq 1 4) (exq 5 1) 10) true ex_K st' rp = Ok sol /\
  kkt_solve_r (ex_rs (exq 1 4) (exq 5 1) 10) true MFull ex_d ex_c ex_o ex_K st' ex_r = Ok v /\ step_ok ex_d v /\
  (kres_norm ex_K rp sol <= kres_norm ex_K rp sol0)%Qc.
Proof.
  destruct ex_total_hyps as (H1 & H2 & H3 & H4 & H5 & H6 & H7 & st0 & st & _ & Hre & Ef).
  destruct (refine_end_to_end _ MFull ex_d ex_c ex_o ex_K st0 st ex_r H1 H2 H3 H4 H5 H6 H7 Hre Ef)
    as (reg & dinv & zbar & rhs & rp & sol0 & sol & v & G1 & G2 & G3 & G4 & G5 & G6 & G7 & G8 & G9 & G10 & _).
  exists st, reg, rp, sol0, sol, v. repeat (split; [assumption|]). apply G10. vm_compute. discriminate.
Qed.
