(* ResidProofs.v -- update_nr_residuals / primal_inf_nr / dual_inf_nr / the SOLVED test compute the TRUE
   residuals, objectives and relative scales of the USER's problem at the UNSCALED point (C01 T2/T4, C09 T1-T3).
   Exact arithmetic, all sizes, all data, arbitrary iterate. *)
From PIQP Require Import Base Data Bounds PrecondDense KKTDense IPM API ResidLemmas ResidSpec.
From RecordUpdate Require Import RecordSet.
Import RecordSetNotations.
Local Open Scope Qc_scope.

(* ------------------------------------------------------------------ *)
(* generic scaled matrix-vector products                                *)
(* ------------------------------------------------------------------ *)
Lemma scaled_mat_vec r c (M : Mat) (a : nat -> nat -> F) (dr dc vf : nat -> F) :
  mat_shape r c M ->
  (forall i j, (i < r)%nat -> (j < c)%nat -> mentry M i j = dr i * dc j * a i j) ->
  mat_vec r M (tab c vf) = tab r (fun i => dr i * sum c (fun j => a i j * (dc j * vf j))).
Proof.
  intros HM H. rewrite (mat_vec_tab r c) by (auto; apply tab_length).
  apply tab_ext; intros i Hi. rewrite sum_scale. apply sum_ext. intros j Hj.
  rewrite el_tab, H by auto. fring.
Qed.
Lemma scaled_matT_vec r c (M : Mat) (a : nat -> nat -> F) (dr dc vf : nat -> F) :
  mat_shape r c M ->
  (forall i j, (i < r)%nat -> (j < c)%nat -> mentry M i j = dr i * dc j * a i j) ->
  matT_vec M (tab r vf) = tab c (fun j => dc j * sum r (fun i => a i j * (dr i * vf i))).
Proof.
  intros HM H. rewrite (matT_vec_tab r c) by (auto; apply tab_length).
  apply tab_ext; intros j Hj. rewrite sum_scale. apply sum_ext. intros i Hi.
  rewrite el_tab, H by auto. fring.
Qed.

Section Resid.
Variable d : Data.
Variable pc : Precond.
Variable U : UserQP.
Hypothesis Hds : data_shape d.
Hypothesis Hps : pc_shape pc d.
Hypothesis Hpi : pc_inverse pc d.
Hypothesis Hsc : is_scaled_of pc d U.
Hypothesis Hlz : lower_zero (d_n d) (d_P d).

Local Notation n := (d_n d).
Local Notation p := (d_p d).
Local Notation m := (d_m d).
Local Notation nlb := (d_nlb d).
Local Notation nub := (d_nub d).
Local Notation lbi := (d_lb_idx d).
Local Notation ubi := (d_ub_idx d).
Local Notation cc := (pc_c pc).
Local Notation ci := (pc_c_inv pc).

(* ---- the scaling vectors as tabs ---- *)
Lemma dx_tab : dx_ pc = tab n (sdx pc).
Proof. unfold dx_. rewrite (ps_n _ _ Hps). apply head_tab. rewrite (ps_delta _ _ Hps). lia. Qed.
Lemma dxi_tab : dxi_ pc = tab n (sdxi pc).
Proof. unfold dxi_. rewrite (ps_n _ _ Hps). apply head_tab. rewrite (ps_delta_inv _ _ Hps). lia. Qed.
Lemma dy_tab : dy_ pc = tab p (sdy pc).
Proof. unfold dy_, sdy. rewrite (ps_n _ _ Hps), (ps_p _ _ Hps). apply segment_tab. rewrite (ps_delta _ _ Hps). lia. Qed.
Lemma dyi_tab : dyi_ pc = tab p (sdyi pc).
Proof. unfold dyi_, sdyi. rewrite (ps_n _ _ Hps), (ps_p _ _ Hps). apply segment_tab. rewrite (ps_delta_inv _ _ Hps). lia. Qed.
Lemma dz_tab : dz_ pc = tab m (sdz pc).
Proof. unfold dz_, sdz. rewrite (ps_n _ _ Hps), (ps_p _ _ Hps). apply tail_from_tab. rewrite (ps_delta _ _ Hps). lia. Qed.
Lemma dzi_tab : dzi_ pc = tab m (sdzi pc).
Proof. unfold dzi_, sdzi. rewrite (ps_n _ _ Hps), (ps_p _ _ Hps). apply tail_from_tab. rewrite (ps_delta_inv _ _ Hps). lia. Qed.
Lemma dlb_tab : head (pc_nlb pc) (pc_delta_lb pc) = tab nlb (sdlb pc).
Proof. rewrite (ps_nlb _ _ Hps). apply head_tab. apply (ps_lb _ _ Hps). Qed.
Lemma dlbi_tab : head (pc_nlb pc) (pc_delta_lb_inv pc) = tab nlb (sdlbi pc).
Proof. rewrite (ps_nlb _ _ Hps). apply head_tab. apply (ps_lbi _ _ Hps). Qed.
Lemma dub_tab : head (pc_nub pc) (pc_delta_ub pc) = tab nub (sdub pc).
Proof. rewrite (ps_nub _ _ Hps). apply head_tab. apply (ps_ub _ _ Hps). Qed.
Lemma dubi_tab : head (pc_nub pc) (pc_delta_ub_inv pc) = tab nub (sdubi pc).
Proof. rewrite (ps_nub _ _ Hps). apply head_tab. apply (ps_ubi _ _ Hps). Qed.

(* ---- inverses ---- *)
Lemma ci_inv : ci = / cc.
Proof. apply Qc_prod1_inv, (pi_c _ _ Hpi). Qed.
Lemma cc_neq0 : cc <> 0.
Proof. apply (Qc_prod1_neq0 _ _ (pi_c _ _ Hpi)). Qed.
Lemma dx_prod i : (i < n)%nat -> sdx pc i * sdxi pc i = 1.
Proof. intros H. apply (pi_delta _ _ Hpi). lia. Qed.
Lemma dy_prod k : (k < p)%nat -> sdy pc k * sdyi pc k = 1.
Proof. intros H. unfold sdy, sdyi. rewrite (ps_n _ _ Hps). apply (pi_delta _ _ Hpi). lia. Qed.
Lemma dz_prod k : (k < m)%nat -> sdz pc k * sdzi pc k = 1.
Proof. intros H. unfold sdz, sdzi. rewrite (ps_n _ _ Hps), (ps_p _ _ Hps). apply (pi_delta _ _ Hpi). lia. Qed.
Lemma dxi_inv i : (i < n)%nat -> sdxi pc i = / sdx pc i /\ sdx pc i <> 0.
Proof. intros H. split. apply Qc_prod1_inv, dx_prod, H. apply (Qc_prod1_neq0 _ _ (dx_prod i H)). Qed.
Lemma dyi_inv k : (k < p)%nat -> sdyi pc k = / sdy pc k /\ sdy pc k <> 0.
Proof. intros H. split. apply Qc_prod1_inv, dy_prod, H. apply (Qc_prod1_neq0 _ _ (dy_prod k H)). Qed.
Lemma dzi_inv k : (k < m)%nat -> sdzi pc k = / sdz pc k /\ sdz pc k <> 0.
Proof. intros H. split. apply Qc_prod1_inv, dz_prod, H. apply (Qc_prod1_neq0 _ _ (dz_prod k H)). Qed.
Lemma dlbi_inv k : (k < nlb)%nat -> sdlbi pc k = / sdlb pc k /\ sdlb pc k <> 0.
Proof. intros H. pose proof (pi_lb _ _ Hpi k H) as E. split. apply Qc_prod1_inv, E. apply (Qc_prod1_neq0 _ _ E). Qed.
Lemma dubi_inv k : (k < nub)%nat -> sdubi pc k = / sdub pc k /\ sdub pc k <> 0.
Proof. intros H. pose proof (pi_ub _ _ Hpi k H) as E. split. apply Qc_prod1_inv, E. apply (Qc_prod1_neq0 _ _ E). Qed.

Lemma lbi_lt k : (k < nlb)%nat -> (nth k lbi O < n)%nat.
Proof. intros H. pose proof (ds_lbi _ Hds) as HF. rewrite Forall_forall in HF. apply HF, nth_In, H. Qed.
Lemma ubi_lt k : (k < nub)%nat -> (nth k ubi O < n)%nat.
Proof. intros H. pose proof (ds_ubi _ Hds) as HF. rewrite Forall_forall in HF. apply HF, nth_In, H. Qed.

(* ---- unscale_* on tabs ---- *)
Lemma u_dual_res_tab f : unscale_dual_res pc (tab n f) = tab n (fun i => ci * f i * sdxi pc i).
Proof. unfold unscale_dual_res. rewrite dxi_tab, vscale_tab, vmul_tab. reflexivity. Qed.
Lemma u_res_eq_tab f : unscale_primal_res_eq pc (tab p f) = tab p (fun k => f k * sdyi pc k).
Proof. unfold unscale_primal_res_eq. rewrite dyi_tab, vmul_tab. reflexivity. Qed.
Lemma u_res_ineq_tab f : unscale_primal_res_ineq pc (tab m f) = tab m (fun k => f k * sdzi pc k).
Proof. unfold unscale_primal_res_ineq. rewrite dzi_tab, vmul_tab. reflexivity. Qed.
Lemma u_res_lb_tab f : unscale_primal_res_lb pc (tab nlb f) = tab nlb (fun k => f k * sdlbi pc k).
Proof. unfold unscale_primal_res_lb. rewrite dlbi_tab, vmul_tab. reflexivity. Qed.
Lemma u_res_ub_tab f : unscale_primal_res_ub pc (tab nub f) = tab nub (fun k => f k * sdubi pc k).
Proof. unfold unscale_primal_res_ub. rewrite dubi_tab, vmul_tab. reflexivity. Qed.

(* ---- Psym_mul on a tab ---- *)
Lemma Psym_tab xf :
  Psym_mul d (tab n xf) = tab n (fun i => cc * sdx pc i * sum n (fun j => Pfull U i j * (xf j * sdx pc j))).
Proof.
  unfold Psym_mul.
  rewrite (mat_vec_tab n n) by (try apply (ds_P _ Hds); apply tab_length).
  match goal with |- vadd _ (map ?g (seq 0 n)) = _ =>
    assert (E : map g (seq 0 n) = tab n (fun i => sum n (fun j => if Nat.ltb j i then mentry (d_P d) j i * xf j else 0))) end.
  { apply (tab_ext n). intros i Hi. rewrite fold_cond_sum. rewrite Qcplus_0_l.
    apply sum_ext. intros j Hj. cbv beta. rewrite nth_tab by auto. reflexivity. }
  rewrite E, vadd_tab. apply tab_ext. intros i Hi.
  rewrite sum_add, sum_scale. apply sum_ext. intros j Hj. rewrite el_tab by auto.
  unfold Pfull. destruct (Nat.ltb_spec j i) as [Hji | Hij].
  - rewrite (Hlz i j Hji Hi). rewrite (sc_P _ _ _ Hsc j i) by lia.
    replace (Nat.leb i j) with false by (symmetry; apply Nat.leb_gt; auto). fring.
  - rewrite (sc_P _ _ _ Hsc i j) by lia.
    replace (Nat.leb i j) with true by (symmetry; apply Nat.leb_le; auto). fring.
Qed.

(* ================================================================== *)
Section Iterate.
Variable it : Iterate.
Hypothesis Hit : it_shape d it.
Local Notation X := (unscale_point pc it).
Local Notation xf := (el (x it)).

Lemma x_tab : x it = tab n (el (x it)). Proof. apply vec_tab', (is_x _ _ Hit). Qed.
Lemma y_tab : y it = tab p (el (y it)). Proof. apply vec_tab', (is_y _ _ Hit). Qed.
Lemma z_tab : z it = tab m (el (z it)). Proof. apply vec_tab', (is_z _ _ Hit). Qed.
Lemma zlb_tab : z_lb it = tab nlb (el (z_lb it)). Proof. apply vec_tab', (is_zlb _ _ Hit). Qed.
Lemma zub_tab : z_ub it = tab nub (el (z_ub it)). Proof. apply vec_tab', (is_zub _ _ Hit). Qed.
Lemma s_tab : s it = tab m (el (s it)). Proof. apply vec_tab', (is_s _ _ Hit). Qed.
Lemma slb_tab : s_lb it = tab nlb (el (s_lb it)). Proof. apply vec_tab', (is_slb _ _ Hit). Qed.
Lemma sub_tab : s_ub it = tab nub (el (s_ub it)). Proof. apply vec_tab', (is_sub _ _ Hit). Qed.

(* ---- the unscaled point as tabs ---- *)
Lemma X_x_tab : p_x X = tab n (fun i => el (x it) i * sdx pc i).
Proof. simpl. unfold unscale_primal. rewrite x_tab at 1. rewrite dx_tab, vmul_tab. reflexivity. Qed.
Lemma X_y_tab : p_y X = tab p (fun k => ci * el (y it) k * sdy pc k).
Proof. simpl. unfold unscale_dual_eq. rewrite y_tab at 1. rewrite dy_tab, vscale_tab, vmul_tab. reflexivity. Qed.
Lemma X_z_tab : p_z X = tab m (fun k => ci * el (z it) k * sdz pc k).
Proof. simpl. unfold unscale_dual_ineq. rewrite z_tab at 1. rewrite dz_tab, vscale_tab, vmul_tab. reflexivity. Qed.
Lemma X_zlb_tab : p_zlb X = tab nlb (fun k => ci * el (z_lb it) k * sdlb pc k).
Proof. simpl. unfold unscale_dual_lb. rewrite zlb_tab at 1. rewrite dlb_tab, vscale_tab, vmul_tab. reflexivity. Qed.
Lemma X_zub_tab : p_zub X = tab nub (fun k => ci * el (z_ub it) k * sdub pc k).
Proof. simpl. unfold unscale_dual_ub. rewrite zub_tab at 1. rewrite dub_tab, vscale_tab, vmul_tab. reflexivity. Qed.
Lemma X_s_tab : p_s X = tab m (fun k => el (s it) k * sdzi pc k).
Proof. simpl. unfold unscale_slack_ineq. rewrite s_tab at 1. rewrite dzi_tab, vmul_tab. reflexivity. Qed.
Lemma X_slb_tab : p_slb X = tab nlb (fun k => el (s_lb it) k * sdlbi pc k).
Proof. simpl. unfold unscale_slack_lb. rewrite slb_tab at 1. rewrite dlbi_tab, vmul_tab. reflexivity. Qed.
Lemma X_sub_tab : p_sub X = tab nub (fun k => el (s_ub it) k * sdubi pc k).
Proof. simpl. unfold unscale_slack_ub. rewrite sub_tab at 1. rewrite dubi_tab, vmul_tab. reflexivity. Qed.

Lemma X_x i : (i < n)%nat -> el (p_x X) i = el (x it) i * sdx pc i.
Proof. intros. rewrite X_x_tab, el_tab; auto. Qed.
Lemma X_y k : (k < p)%nat -> el (p_y X) k = ci * el (y it) k * sdy pc k.
Proof. intros. rewrite X_y_tab, el_tab; auto. Qed.
Lemma X_z k : (k < m)%nat -> el (p_z X) k = ci * el (z it) k * sdz pc k.
Proof. intros. rewrite X_z_tab, el_tab; auto. Qed.
Lemma X_zlb k : (k < nlb)%nat -> el (p_zlb X) k = ci * el (z_lb it) k * sdlb pc k.
Proof. intros. rewrite X_zlb_tab, el_tab; auto. Qed.
Lemma X_zub k : (k < nub)%nat -> el (p_zub X) k = ci * el (z_ub it) k * sdub pc k.
Proof. intros. rewrite X_zub_tab, el_tab; auto. Qed.
Lemma X_s k : (k < m)%nat -> el (p_s X) k = el (s it) k * sdzi pc k.
Proof. intros. rewrite X_s_tab, el_tab; auto. Qed.
Lemma X_slb k : (k < nlb)%nat -> el (p_slb X) k = el (s_lb it) k * sdlbi pc k.
Proof. intros. rewrite X_slb_tab, el_tab; auto. Qed.
Lemma X_sub k : (k < nub)%nat -> el (p_sub X) k = el (s_ub it) k * sdubi pc k.
Proof. intros. rewrite X_sub_tab, el_tab; auto. Qed.

(* ---- atomic scaled vectors = scaling * user quantity ---- *)
Lemma A_Px : Psym_mul d (x it) = tab n (fun i => cc * sdx pc i * t_Px U n (el (p_x X)) i).
Proof.
  rewrite x_tab at 1. rewrite Psym_tab. apply tab_ext. intros i Hi. f_equal.
  unfold t_Px. apply sum_ext. intros j Hj. rewrite X_x by auto. reflexivity.
Qed.
Lemma A_c : d_c d = tab n (fun i => cc * sdx pc i * u_c U i).
Proof.
  rewrite (vec_tab' (d_c d) n (ds_c _ Hds)) at 1. apply tab_ext. intros i Hi. apply (sc_c _ _ _ Hsc i Hi).
Qed.
Lemma A_ATy : mat_vec n (d_AT d) (y it) = tab n (fun i => cc * sdx pc i * t_ATy U p (el (p_y X)) i).
Proof.
  rewrite y_tab at 1.
  rewrite (scaled_mat_vec n p (d_AT d) (fun i k => u_A U k i) (sdx pc) (sdy pc)); [| apply (ds_AT _ Hds) | apply (sc_AT _ _ _ Hsc)].
  apply tab_ext. intros i Hi. unfold t_ATy. rewrite !sum_scale. apply sum_ext. intros k Hk.
  rewrite X_y, ci_inv by auto. ffield. apply cc_neq0.
Qed.
Lemma A_GTz : mat_vec n (d_GT d) (z it) = tab n (fun i => cc * sdx pc i * t_GTz U m (el (p_z X)) i).
Proof.
  rewrite z_tab at 1.
  rewrite (scaled_mat_vec n m (d_GT d) (fun i k => u_G U k i) (sdx pc) (sdz pc)); [| apply (ds_GT _ Hds) | apply (sc_GT _ _ _ Hsc)].
  apply tab_ext. intros i Hi. unfold t_GTz. rewrite !sum_scale. apply sum_ext. intros k Hk.
  rewrite X_z, ci_inv by auto. ffield. apply cc_neq0.
Qed.
Lemma lbs_tab : head nlb (d_lb_scaling d) = tab nlb (fun k => sdlb pc k * sdx pc (nth k lbi O)).
Proof.
  rewrite head_tab by apply (ds_lbs _ Hds). apply tab_ext. intros k Hk. apply (sc_lbs _ _ _ Hsc k Hk).
Qed.
Lemma ubs_tab : head nub (d_ub_scaling d) = tab nub (fun k => sdub pc k * sdx pc (nth k ubi O)).
Proof.
  rewrite head_tab by apply (ds_ubs _ Hds). apply tab_ext. intros k Hk. apply (sc_ubs _ _ _ Hsc k Hk).
Qed.
Lemma A_scatter_lb a :
  scatter_with Qcminus (tab n a) lbi (vmul (head nlb (d_lb_scaling d)) (z_lb it))
  = Ok (tab n (fun i => a i - cc * sdx pc i * t_Elb lbi (el (p_zlb X)) i)).
Proof.
  rewrite lbs_tab. rewrite zlb_tab at 1. rewrite vmul_tab.
  rewrite (scatter_tab Qcopp Qcminus (fun _ _ => eq_refl) n) by (try apply (ds_lbi _ Hds); rewrite tab_length; apply Nat.le_refl).
  f_equal. apply tab_ext. intros i Hi. unfold Qcminus. f_equal.
  unfold t_Elb. rewrite sum_scale, sum_opp. apply sum_ext. intros k Hk. fold nlb in Hk.
  rewrite el_tab by auto. destruct (Nat.eqb_spec (nth k lbi O) i) as [E | E].
  - rewrite E. rewrite X_zlb, ci_inv by auto. ffield. apply cc_neq0.
  - fring.
Qed.
Lemma A_scatter_ub a :
  scatter_with Qcplus (tab n a) ubi (vmul (head nub (d_ub_scaling d)) (z_ub it))
  = Ok (tab n (fun i => a i + cc * sdx pc i * t_Eub ubi (el (p_zub X)) i)).
Proof.
  rewrite ubs_tab. rewrite zub_tab at 1. rewrite vmul_tab.
  rewrite (scatter_tab (fun b => b) Qcplus (fun _ _ => eq_refl) n) by (try apply (ds_ubi _ Hds); rewrite tab_length; apply Nat.le_refl).
  f_equal. apply tab_ext. intros i Hi. f_equal.
  unfold t_Eub. rewrite sum_scale. apply sum_ext. intros k Hk. fold nub in Hk.
  rewrite el_tab by auto. destruct (Nat.eqb_spec (nth k ubi O) i) as [E | E].
  - rewrite E. rewrite X_zub, ci_inv by auto. ffield. apply cc_neq0.
  - fring.
Qed.

Lemma A_Ax : matT_vec (d_AT d) (x it) = tab p (fun k => sdy pc k * t_Ax U n (el (p_x X)) k).
Proof.
  rewrite x_tab at 1.
  rewrite (scaled_matT_vec n p (d_AT d) (fun i k => u_A U k i) (sdx pc) (sdy pc)); [| apply (ds_AT _ Hds) | apply (sc_AT _ _ _ Hsc)].
  apply tab_ext. intros k Hk. f_equal. unfold t_Ax. apply sum_ext. intros i Hi. rewrite X_x by auto. fring.
Qed.
Lemma A_Gx : matT_vec (d_GT d) (x it) = tab m (fun k => sdz pc k * t_Gx U n (el (p_x X)) k).
Proof.
  rewrite x_tab at 1.
  rewrite (scaled_matT_vec n m (d_GT d) (fun i k => u_G U k i) (sdx pc) (sdz pc)); [| apply (ds_GT _ Hds) | apply (sc_GT _ _ _ Hsc)].
  apply tab_ext. intros k Hk. f_equal. unfold t_Gx. apply sum_ext. intros i Hi. rewrite X_x by auto. fring.
Qed.
Lemma A_b : d_b d = tab p (fun k => sdy pc k * u_b U k).
Proof. rewrite (vec_tab' (d_b d) p (ds_b _ Hds)) at 1. apply tab_ext. intros k Hk. apply (sc_b _ _ _ Hsc k Hk). Qed.
Lemma A_h : d_h d = tab m (fun k => sdz pc k * u_h U k).
Proof. rewrite (vec_tab' (d_h d) m (ds_h _ Hds)) at 1. apply tab_ext. intros k Hk. apply (sc_h _ _ _ Hsc k Hk). Qed.
Lemma A_s : s it = tab m (fun k => sdz pc k * el (p_s X) k).
Proof.
  rewrite s_tab at 1. apply tab_ext. intros k Hk. rewrite X_s by auto.
  destruct (dzi_inv k Hk) as [-> Hz]. ffield. auto.
Qed.
Lemma A_gather_lb : gather (x it) lbi = Ok (tab nlb (fun k => el (x it) (nth k lbi O))).
Proof. apply gather_tab. rewrite (is_x _ _ Hit). apply (ds_lbi _ Hds). Qed.
Lemma A_gather_ub : gather (x it) ubi = Ok (tab nub (fun k => el (x it) (nth k ubi O))).
Proof. apply gather_tab. rewrite (is_x _ _ Hit). apply (ds_ubi _ Hds). Qed.
Lemma A_xlb : vmul (head nlb (d_lb_scaling d)) (tab nlb (fun k => el (x it) (nth k lbi O)))
              = tab nlb (fun k => sdlb pc k * t_xlb lbi (el (p_x X)) k).
Proof.
  rewrite lbs_tab, vmul_tab. apply tab_ext. intros k Hk. unfold t_xlb. rewrite X_x by (apply lbi_lt; auto). fring.
Qed.
Lemma A_xub : vmul (head nub (d_ub_scaling d)) (tab nub (fun k => el (x it) (nth k ubi O)))
              = tab nub (fun k => sdub pc k * t_xub ubi (el (p_x X)) k).
Proof.
  rewrite ubs_tab, vmul_tab. apply tab_ext. intros k Hk. unfold t_xub. rewrite X_x by (apply ubi_lt; auto). fring.
Qed.
Lemma A_lbn : d_lb_n d = tab nlb (fun k => sdlb pc k * - t_lbv U lbi k).
Proof. rewrite (vec_tab' (d_lb_n d) nlb (ds_lbn _ Hds)) at 1. apply tab_ext. intros k Hk. apply (sc_lbn _ _ _ Hsc k Hk). Qed.
Lemma A_ubv : d_ub d = tab nub (fun k => sdub pc k * t_ubv U ubi k).
Proof. rewrite (vec_tab' (d_ub d) nub (ds_ub _ Hds)) at 1. apply tab_ext. intros k Hk. apply (sc_ubv _ _ _ Hsc k Hk). Qed.
Lemma A_slb : s_lb it = tab nlb (fun k => sdlb pc k * el (p_slb X) k).
Proof.
  rewrite slb_tab at 1. apply tab_ext. intros k Hk. rewrite X_slb by auto.
  destruct (dlbi_inv k Hk) as [-> Hz]. ffield. auto.
Qed.
Lemma A_sub : s_ub it = tab nub (fun k => sdub pc k * el (p_sub X) k).
Proof.
  rewrite sub_tab at 1. apply tab_ext. intros k Hk. rewrite X_sub by auto.
  destruct (dubi_inv k Hk) as [-> Hz]. ffield. auto.
Qed.

(* ---- unscaled atomic vectors ---- *)
Lemma N_Px : unscale_dual_res pc (vneg (Psym_mul d (x it))) = tab n (fun i => - t_Px U n (el (p_x X)) i).
Proof.
  rewrite A_Px, vneg_tab, u_dual_res_tab. apply tab_ext. intros i Hi.
  destruct (dxi_inv i Hi) as [-> Hx]. rewrite ci_inv. ffield. split; auto. apply cc_neq0.
Qed.
Lemma N_c : unscale_dual_res pc (d_c d) = tab n (u_c U).
Proof.
  rewrite A_c, u_dual_res_tab. apply tab_ext. intros i Hi.
  destruct (dxi_inv i Hi) as [-> Hx]. rewrite ci_inv. ffield. split; auto. apply cc_neq0.
Qed.
Definition lin_t2 : Vec :=
  tab n (fun i => cc * sdx pc i * t_lin U p m lbi ubi (el (p_y X)) (el (p_z X)) (el (p_zlb X)) (el (p_zub X)) i).
Lemma N_lin : unscale_dual_res pc lin_t2 = tab n (t_lin U p m lbi ubi (el (p_y X)) (el (p_z X)) (el (p_zlb X)) (el (p_zub X))).
Proof.
  unfold lin_t2. rewrite u_dual_res_tab. apply tab_ext. intros i Hi.
  destruct (dxi_inv i Hi) as [-> Hx]. rewrite ci_inv. ffield. split; auto. apply cc_neq0.
Qed.
Lemma t2_run {A} (k : Vec -> res A) :
  (do t1 <- scatter_with Qcminus (vadd (mat_vec n (d_AT d) (y it)) (mat_vec n (d_GT d) (z it))) lbi
              (vmul (head nlb (d_lb_scaling d)) (z_lb it)) ;;
   do t2 <- scatter_with Qcplus t1 ubi (vmul (head nub (d_ub_scaling d)) (z_ub it)) ;; k t2) = k lin_t2.
Proof.
  rewrite A_ATy, A_GTz, vadd_tab, A_scatter_lb. cbn [bind]. rewrite A_scatter_ub. cbn [bind].
  f_equal. apply tab_ext. intros i Hi. unfold t_lin. fring.
Qed.
Lemma N_Ax : unscale_primal_res_eq pc (vneg (matT_vec (d_AT d) (x it))) = tab p (fun k => - t_Ax U n (el (p_x X)) k).
Proof.
  rewrite A_Ax, vneg_tab, u_res_eq_tab. apply tab_ext. intros k Hk.
  destruct (dyi_inv k Hk) as [-> Hy]. ffield. auto.
Qed.
Lemma N_b : unscale_primal_res_eq pc (d_b d) = tab p (u_b U).
Proof.
  rewrite A_b, u_res_eq_tab. apply tab_ext. intros k Hk.
  destruct (dyi_inv k Hk) as [-> Hy]. ffield. auto.
Qed.
Lemma N_Gx : unscale_primal_res_ineq pc (vneg (matT_vec (d_GT d) (x it))) = tab m (fun k => - t_Gx U n (el (p_x X)) k).
Proof.
  rewrite A_Gx, vneg_tab, u_res_ineq_tab. apply tab_ext. intros k Hk.
  destruct (dzi_inv k Hk) as [-> Hy]. ffield. auto.
Qed.
Lemma N_h : unscale_primal_res_ineq pc (d_h d) = tab m (u_h U).
Proof.
  rewrite A_h, u_res_ineq_tab. apply tab_ext. intros k Hk.
  destruct (dzi_inv k Hk) as [-> Hy]. ffield. auto.
Qed.
Lemma N_s : unscale_primal_res_ineq pc (s it) = tab m (el (p_s X)).
Proof.
  rewrite A_s at 1. rewrite u_res_ineq_tab. apply tab_ext. intros k Hk.
  destruct (dzi_inv k Hk) as [-> Hy]. ffield. auto.
Qed.
Local Notation xlbt := (tab nlb (fun k => el (x it) (nth k lbi O))).
Local Notation xubt := (tab nub (fun k => el (x it) (nth k ubi O))).
Lemma N_xlb : unscale_primal_res_lb pc (vmul (head nlb (d_lb_scaling d)) xlbt) = tab nlb (t_xlb lbi (el (p_x X))).
Proof.
  rewrite A_xlb, u_res_lb_tab. apply tab_ext. intros k Hk.
  destruct (dlbi_inv k Hk) as [-> Hy]. ffield. auto.
Qed.
Lemma N_lbn : unscale_primal_res_lb pc (d_lb_n d) = tab nlb (fun k => - t_lbv U lbi k).
Proof.
  rewrite A_lbn, u_res_lb_tab. apply tab_ext. intros k Hk.
  destruct (dlbi_inv k Hk) as [-> Hy]. ffield. auto.
Qed.
Lemma N_slb : unscale_primal_res_lb pc (s_lb it) = tab nlb (el (p_slb X)).
Proof.
  rewrite A_slb at 1. rewrite u_res_lb_tab. apply tab_ext. intros k Hk.
  destruct (dlbi_inv k Hk) as [-> Hy]. ffield. auto.
Qed.
Lemma N_xub : unscale_primal_res_ub pc (vneg (vmul (head nub (d_ub_scaling d)) xubt)) = tab nub (fun k => - t_xub ubi (el (p_x X)) k).
Proof.
  rewrite A_xub, vneg_tab, u_res_ub_tab. apply tab_ext. intros k Hk.
  destruct (dubi_inv k Hk) as [-> Hy]. ffield. auto.
Qed.
Lemma N_ubv : unscale_primal_res_ub pc (d_ub d) = tab nub (t_ubv U ubi).
Proof.
  rewrite A_ubv, u_res_ub_tab. apply tab_ext. intros k Hk.
  destruct (dubi_inv k Hk) as [-> Hy]. ffield. auto.
Qed.
Lemma N_sub : unscale_primal_res_ub pc (s_ub it) = tab nub (el (p_sub X)).
Proof.
  rewrite A_sub at 1. rewrite u_res_ub_tab. apply tab_ext. intros k Hk.
  destruct (dubi_inv k Hk) as [-> Hy]. ffield. auto.
Qed.

(* ---- the five residual vectors ---- *)
Lemma F_dual :
  unscale_dual_res pc (vsub (vsub (vneg (Psym_mul d (x it))) (d_c d)) lin_t2) = tab n (fun i => - X_stat U d X i).
Proof.
  unfold lin_t2. rewrite A_Px, A_c, vneg_tab, !vsub_tab, u_dual_res_tab. apply tab_ext. intros i Hi.
  unfold X_stat, t_stat. destruct (dxi_inv i Hi) as [-> Hx]. rewrite ci_inv. ffield. split; auto. apply cc_neq0.
Qed.
Lemma F_eq :
  unscale_primal_res_eq pc (vadd (vneg (matT_vec (d_AT d) (x it))) (d_b d)) = tab p (X_req U d X).
Proof.
  rewrite A_Ax, A_b, vneg_tab, vadd_tab, u_res_eq_tab. apply tab_ext. intros k Hk.
  unfold X_req, t_req. destruct (dyi_inv k Hk) as [-> Hy]. ffield. auto.
Qed.
Lemma F_ineq :
  unscale_primal_res_ineq pc (vadd (vneg (matT_vec (d_GT d) (x it))) (vsub (d_h d) (s it))) = tab m (X_rineq U d X).
Proof.
  rewrite A_Gx, A_h. rewrite A_s at 1. rewrite vneg_tab, vsub_tab, vadd_tab, u_res_ineq_tab. apply tab_ext. intros k Hk.
  unfold X_rineq, t_rineq. destruct (dzi_inv k Hk) as [-> Hy]. ffield. auto.
Qed.
Lemma F_lb :
  unscale_primal_res_lb pc (vadd (vmul (head nlb (d_lb_scaling d)) xlbt) (vsub (d_lb_n d) (s_lb it))) = tab nlb (X_rlb U d X).
Proof.
  rewrite A_xlb, A_lbn. rewrite A_slb at 1. rewrite vsub_tab, vadd_tab, u_res_lb_tab. apply tab_ext. intros k Hk.
  unfold X_rlb, t_rlb. destruct (dlbi_inv k Hk) as [-> Hy]. ffield. auto.
Qed.
Lemma F_ub :
  unscale_primal_res_ub pc (vadd (vneg (vmul (head nub (d_ub_scaling d)) xubt)) (vsub (d_ub d) (s_ub it))) = tab nub (X_rub U d X).
Proof.
  rewrite A_xub, A_ubv. rewrite A_sub at 1. rewrite vneg_tab, vsub_tab, vadd_tab, u_res_ub_tab. apply tab_ext. intros k Hk.
  unfold X_rub, t_rub. destruct (dubi_inv k Hk) as [-> Hy]. ffield. auto.
Qed.

(* ---- the scalar products of the objective ---- *)
Lemma B_xPx : dot (x it) (vneg (Psym_mul d (x it))) = - (cc * t_xPx U n (el (p_x X))).
Proof.
  rewrite A_Px, vneg_tab. rewrite x_tab at 1. rewrite dot_tab. unfold t_xPx.
  rewrite sum_scale, sum_opp. apply sum_ext. intros i Hi. rewrite X_x by auto. fring.
Qed.
Lemma B_cx : dot (d_c d) (x it) = cc * t_cx U n (el (p_x X)).
Proof.
  rewrite A_c. rewrite x_tab at 1. rewrite dot_tab. unfold t_cx.
  rewrite sum_scale. apply sum_ext. intros i Hi. rewrite X_x by auto. fring.
Qed.
Lemma B_by : dot (d_b d) (y it) = cc * t_by U p (el (p_y X)).
Proof.
  rewrite A_b. rewrite y_tab at 1. rewrite dot_tab. unfold t_by.
  rewrite sum_scale. apply sum_ext. intros k Hk. rewrite X_y, ci_inv by auto. ffield. apply cc_neq0.
Qed.
Lemma B_hz : dot (d_h d) (z it) = cc * t_hz U m (el (p_z X)).
Proof.
  rewrite A_h. rewrite z_tab at 1. rewrite dot_tab. unfold t_hz.
  rewrite sum_scale. apply sum_ext. intros k Hk. rewrite X_z, ci_inv by auto. ffield. apply cc_neq0.
Qed.
Lemma B_lbz : dot (d_lb_n d) (z_lb it) = - (cc * t_lbz U lbi (el (p_zlb X))).
Proof.
  rewrite A_lbn. rewrite zlb_tab at 1. rewrite dot_tab. unfold t_lbz.
  rewrite sum_scale, sum_opp. apply sum_ext. intros k Hk. fold nlb in Hk. rewrite X_zlb, ci_inv by auto. ffield. apply cc_neq0.
Qed.
Lemma B_ubz : dot (d_ub d) (z_ub it) = cc * t_ubz U ubi (el (p_zub X)).
Proof.
  rewrite A_ubv. rewrite zub_tab at 1. rewrite dot_tab. unfold t_ubz.
  rewrite sum_scale. apply sum_ext. intros k Hk. fold nub in Hk. rewrite X_zub, ci_inv by auto. ffield. apply cc_neq0.
Qed.

(* ---- running update_nr_residuals ---- *)
Lemma info_upd_fields (inf : Info) a b c e f g inf' :
  inf <| i_dual_rel_inf := a |> <| i_primal_obj := b |> <| i_dual_obj := c |>
      <| i_duality_gap_rel := e |> <| i_duality_gap := f |> <| i_primal_rel_inf := g |> = inf' ->
  i_dual_rel_inf inf' = a /\ i_primal_obj inf' = b /\ i_dual_obj inf' = c /\
  i_duality_gap_rel inf' = e /\ i_duality_gap inf' = f /\ i_primal_rel_inf inf' = g.
Proof. intros <-. destruct inf. repeat split; reflexivity. Qed.

Lemma uc_abs t : 0 < cc -> unscale_cost pc (qabs (cc * t)) = qabs t.
Proof.
  intros Hc. unfold unscale_cost. pose proof (Qc_inv_pos _ _ Hc (pi_c _ _ Hpi)) as Hci.
  rewrite <- qabs_mult_pos by (apply Qclt_le_weak, Hci). f_equal. rewrite ci_inv. ffield. apply cc_neq0.
Qed.
Lemma uc_abs_opp t : 0 < cc -> unscale_cost pc (qabs (- (cc * t))) = qabs t.
Proof. intros Hc. rewrite qabs_opp. apply uc_abs, Hc. Qed.

Theorem nr_true_holds K inf res inf' :
  0 < cc ->
  update_nr_residuals d pc K it inf = Ok (res, inf') ->
  nr_true U d pc (k_half K) it res inf'.
Proof.
  intros Hc H. cbv beta zeta delta [update_nr_residuals] in H.
  rewrite t2_run in H. rewrite A_gather_lb, A_gather_ub in H. cbn [bind] in H.
  injection H as Hr Hi. apply info_upd_fields in Hi.
  destruct Hi as (Edrel & Epobj & Edobj & Egrel & Egap & Eprel).
  subst res. split; cbn [rx_nr ry_nr rz_nr rz_lb_nr rz_ub_nr].
  - apply F_dual.
  - apply F_eq.
  - apply F_ineq.
  - apply F_lb.
  - apply F_ub.
  - rewrite Epobj. unfold unscale_cost. rewrite B_xPx, B_cx, ci_inv. unfold X_pobj, t_pobj. ffield. apply cc_neq0.
  - rewrite Edobj. unfold unscale_cost. rewrite B_xPx, B_by, B_hz, B_lbz, B_ubz, ci_inv. unfold X_dobj, t_dobj. ffield. apply cc_neq0.
  - rewrite Egap. unfold unscale_cost. pose proof (Qc_inv_pos _ _ Hc (pi_c _ _ Hpi)) as Hci.
    rewrite <- qabs_mult_pos by (apply Qclt_le_weak, Hci). f_equal.
    rewrite B_xPx, B_cx, B_by, B_hz, B_lbz, B_ubz, ci_inv. unfold X_pobj, X_dobj, t_pobj, t_dobj. ffield. apply cc_neq0.
  - rewrite Egrel. rewrite B_xPx, B_cx, B_by, B_hz, B_lbz, B_ubz. rewrite Qcopp_involutive.
    rewrite !uc_abs, uc_abs_opp by exact Hc. reflexivity.
  - rewrite Eprel. unfold nmax.
    rewrite N_Ax, N_b, N_Gx, N_h, N_s, N_xlb, N_lbn, N_slb, N_xub, N_ubv, N_sub. rewrite !norm_inf_tab_opp. reflexivity.
  - rewrite Edrel. unfold nmax. rewrite N_Px, N_c, N_lin. rewrite !norm_inf_tab_opp. reflexivity.
  - unfold primal_inf_nr, primal_inf_of, nmax. cbn [rx_nr ry_nr rz_nr rz_lb_nr rz_ub_nr].
    rewrite F_eq, F_ineq, F_lb, F_ub. reflexivity.
  - unfold dual_inf_nr. cbn [rx_nr]. rewrite F_dual. rewrite norm_inf_tab_opp. reflexivity.
Qed.

(* update_nr_residuals never fails on well-shaped inputs *)
Lemma unr_total K inf : exists res inf', update_nr_residuals d pc K it inf = Ok (res, inf').
Proof.
  cbv beta zeta delta [update_nr_residuals].
  rewrite t2_run. rewrite A_gather_lb, A_gather_ub. cbn [bind]. eexists. eexists. reflexivity.
Qed.

(* ---- positivity of the scalings: signs are the same in scaled and in user space ---- *)
Lemma same_sign_scaled N (a b c : nat -> F) :
  (forall k, (k < N)%nat -> 0 < c k) -> (forall k, (k < N)%nat -> b k = c k * a k) -> same_sign N a b.
Proof.
  intros Hc Hb k Hk. rewrite (Hb k Hk). split.
  - symmetry. apply Qcmult_pos_nonneg, Hc, Hk.
  - symmetry. apply Qcmult_pos_pos_iff, Hc, Hk.
Qed.
Theorem unscale_keeps_sign_sec :
  pc_positive pc d ->
  same_sign m (el (z it)) (el (p_z X)) /\ same_sign nlb (el (z_lb it)) (el (p_zlb X)) /\
  same_sign nub (el (z_ub it)) (el (p_zub X)) /\ same_sign m (el (s it)) (el (p_s X)) /\
  same_sign nlb (el (s_lb it)) (el (p_slb X)) /\ same_sign nub (el (s_ub it)) (el (p_sub X)).
Proof.
  intros Hpp. pose proof (Qc_inv_pos _ _ (pp_c _ _ Hpp) (pi_c _ _ Hpi)) as Hci.
  assert (Hdz : forall k, (k < m)%nat -> 0 < sdz pc k).
  { intros k Hk. unfold sdz. rewrite (ps_n _ _ Hps), (ps_p _ _ Hps). apply (pp_delta _ _ Hpp). lia. }
  refine (conj _ (conj _ (conj _ (conj _ (conj _ _))))).
  - apply (same_sign_scaled m _ _ (fun k => ci * sdz pc k)).
    + intros k Hk. apply Qcmult_pos_pos; auto.
    + intros k Hk. rewrite X_z by auto. fring.
  - apply (same_sign_scaled nlb _ _ (fun k => ci * sdlb pc k)).
    + intros k Hk. apply Qcmult_pos_pos; auto. apply (pp_lb _ _ Hpp k Hk).
    + intros k Hk. rewrite X_zlb by auto. fring.
  - apply (same_sign_scaled nub _ _ (fun k => ci * sdub pc k)).
    + intros k Hk. apply Qcmult_pos_pos; auto. apply (pp_ub _ _ Hpp k Hk).
    + intros k Hk. rewrite X_zub by auto. fring.
  - apply (same_sign_scaled m _ _ (sdzi pc)).
    + intros k Hk. apply (Qc_inv_pos _ _ (Hdz k Hk) (dz_prod k Hk)).
    + intros k Hk. rewrite X_s by auto. fring.
  - apply (same_sign_scaled nlb _ _ (sdlbi pc)).
    + intros k Hk. apply (Qc_inv_pos _ _ (pp_lb _ _ Hpp k Hk) (pi_lb _ _ Hpi k Hk)).
    + intros k Hk. rewrite X_slb by auto. fring.
  - apply (same_sign_scaled nub _ _ (sdubi pc)).
    + intros k Hk. apply (Qc_inv_pos _ _ (pp_ub _ _ Hpp k Hk) (pi_ub _ _ Hpi k Hk)).
    + intros k Hk. rewrite X_sub by auto. fring.
Qed.

End Iterate.
End Resid.

(* ================================================================== *)
(* closed statements                                                    *)
(* ================================================================== *)

(* C01-T2 / C09-T2,T3 *)
Theorem nr_residuals_are_true_residuals_proof :
  forall (d : Data) (pc : Precond) (U : UserQP) (K : Consts) (it : Iterate) (inf : Info) (res : Resid) (inf' : Info),
  data_shape d -> pc_shape pc d -> pc_inverse pc d -> 0 < pc_c pc ->
  is_scaled_of pc d U -> lower_zero (d_n d) (d_P d) -> it_shape d it ->
  update_nr_residuals d pc K it inf = Ok (res, inf') ->
  nr_true U d pc (k_half K) it res inf'.
Proof. intros. eapply nr_true_holds; eauto. Qed.


Theorem info_objectives_and_residuals_proof :
  forall (d : Data) (pc : Precond) (U : UserQP) (K : Consts) (it : Iterate) (inf : Info) (res : Resid) (inf' : Info),
  data_shape d -> pc_shape pc d -> pc_inverse pc d -> 0 < pc_c pc ->
  is_scaled_of pc d U -> lower_zero (d_n d) (d_P d) -> it_shape d it ->
  update_nr_residuals d pc K it inf = Ok (res, inf') ->
  let X := unscale_point pc it in
  i_primal_obj inf' = X_pobj U d X (k_half K) /\
  i_dual_obj inf' = X_dobj U d X (k_half K) /\
  i_duality_gap inf' = qabs (X_pobj U d X (k_half K) - X_dobj U d X (k_half K)) /\
  i_duality_gap_rel inf' = X_gap_rel U d X /\
  i_primal_rel_inf inf' = X_primal_rel U d X /\
  i_dual_rel_inf inf' = X_dual_rel U d X /\
  primal_inf_nr pc res = X_primal_inf U d X /\
  dual_inf_nr pc res = X_dual_inf U d X.
Proof.
  intros d pc U K it inf res inf' H1 H2 H3 H4 H5 H6 H7 H8.
  destruct (nr_residuals_are_true_residuals_proof d pc U K it inf res inf' H1 H2 H3 H4 H5 H6 H7 H8).
  cbv zeta. repeat split; assumption.
Qed.

Theorem update_nr_residuals_total_proof :
  forall (d : Data) (pc : Precond) (U : UserQP) (K : Consts) (it : Iterate) (inf : Info),
  data_shape d -> pc_shape pc d -> pc_inverse pc d ->
  is_scaled_of pc d U -> lower_zero (d_n d) (d_P d) -> it_shape d it ->
  exists res inf', update_nr_residuals d pc K it inf = Ok (res, inf').
Proof. intros. eapply unr_total; eauto. Qed.

Theorem unscale_keeps_sign_proof :
  forall (d : Data) (pc : Precond) (it : Iterate),
  pc_shape pc d -> pc_inverse pc d -> pc_positive pc d -> it_shape d it ->
  let X := unscale_point pc it in
  same_sign (d_m d) (el (z it)) (el (p_z X)) /\ same_sign (d_nlb d) (el (z_lb it)) (el (p_zlb X)) /\
  same_sign (d_nub d) (el (z_ub it)) (el (p_zub X)) /\ same_sign (d_m d) (el (s it)) (el (p_s X)) /\
  same_sign (d_nlb d) (el (s_lb it)) (el (p_slb X)) /\ same_sign (d_nub d) (el (s_ub it)) (el (p_sub X)).
Proof. intros. apply unscale_keeps_sign_sec; auto. Qed.

(* nr_true reads only the six fields of the info record *)
Lemma nr_true_same6 U d pc half it res inf1 inf :
  nr_true U d pc half it res inf1 -> same6 inf1 inf -> nr_true U d pc half it res inf.
Proof.
  intros [] (E1 & E2 & E3 & E4 & E5 & E6). split; auto; congruence.
Qed.
(* ... and only the eight fields of the iterate *)
Lemma unscale_point_same8 pc it0 it : same8 it0 it -> unscale_point pc it0 = unscale_point pc it.
Proof. intros (E1 & E2 & E3 & E4 & E5 & E6 & E7 & E8). unfold unscale_point. congruence. Qed.
Lemma it_shape_same8 d it0 it : same8 it0 it -> it_shape d it -> it_shape d it0.
Proof. intros (E1 & E2 & E3 & E4 & E5 & E6 & E7 & E8) []. split; congruence. Qed.
Lemma nr_true_same8 U d pc half it0 it res inf :
  same8 it0 it -> nr_true U d pc half it0 res inf -> nr_true U d pc half it res inf.
Proof. intros E H. unfold same8 in E. destruct H. rewrite (unscale_point_same8 pc it0 it E) in *. split; auto. Qed.

Lemma top_info_fields pc res inf :
  i_primal_inf (top_info pc res inf) = primal_inf_nr pc res /\ i_dual_inf (top_info pc res inf) = dual_inf_nr pc res /\
  same6 inf (top_info pc res inf).
Proof. destruct inf. unfold top_info, same6. repeat split; reflexivity. Qed.

(* the SOLVED test on consistent residuals is the certificate on the user's problem *)
Theorem solved_test_certificate_proof :
  forall U d pc S half it res inf,
  nr_true U d pc half it res inf ->
  solved_test S (top_info pc res inf) = true ->
  certificate U d S half (unscale_point pc it).
Proof.
  intros U d pc S half it res inf Hnt Ht.
  destruct (top_info_fields pc res inf) as (Ep & Ed & (E1 & E2 & E3 & E4 & E5 & E6)).
  unfold solved_test in Ht. apply andb_true_iff in Ht. destruct Ht as [Ht Hg].
  apply andb_true_iff in Ht. destruct Ht as [Hp Hd].
  apply qltb_lt in Hp. apply qltb_lt in Hd. unfold thresh in *.
  rewrite Ep, <- E1 in Hp. rewrite Ed, <- E2 in Hd.
  destruct Hnt. split.
  - congruence.
  - congruence.
  - intros Hc. rewrite Hc in Hg. cbn [negb orb] in Hg. apply qltb_lt in Hg. rewrite <- E5, <- E6 in Hg. congruence.
Qed.

Theorem certificate_entrywise_proof :
  forall U d S half X, certificate U d S half X -> certificate_entrywise U d S half X.
Proof.
  intros U d S half X [Hp Hd Hg].
  unfold X_primal_inf, t_primal_inf in Hp. apply qmax_lt in Hp. destruct Hp as [Hp Hub].
  apply qmax_lt in Hp. destruct Hp as [Hp Hlb]. apply qmax_lt in Hp. destruct Hp as [Heq Hineq].
  unfold fnorm in *. apply norm_inf_tab_lt in Heq, Hineq, Hlb, Hub.
  unfold X_dual_inf, t_dual_inf, fnorm in Hd. apply norm_inf_tab_lt in Hd.
  split; auto.
  - apply Heq. - apply Hineq. - apply Hlb. - apply Hub. - apply Hd.
Qed.
