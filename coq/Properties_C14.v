(* Properties_C14.v -- C14: factorisation and sparse kernels are exact on every pattern.
   Models: CSC.v (utils.hpp, ordering.hpp), LDLSparse.v (sparse/ldlt.hpp), LDLDenseNP.v (dense/ldlt_no_pivot.hpp).
   GENERAL theorems hold for all sizes, patterns and values.  BOUNDED theorems carry the bound in their name
   (_n5 / _n4) and are complete for that bound (exhaustive evaluation lifted by completeness lemmas).
   NOT proved here: the blocked dense variant (only run against the code on every check), the etree theory that
   would make the index part (ldl_index_check) and L*D*L^T = A of the sparse numeric phase general in n: those two
   are proved for all patterns n <= 5 resp. n <= 4 (all values) and run against the code for larger n. *)
From PIQP Require Import Base CSC LDLSparse LDLDenseNP C14LemmasProofs PatternsProofs CSCProofs TransposeProofs PermuteProofs
  LDLSolveProofs LDLSparseProofs LDLRecurrenceProofs LDLDenseNPProofs LDLSparseValuesProofs LDLSparseValuesN4Proofs LDLSparseFinalProofs.
Local Open Scope nat_scope.

(* ===== T1 (general): lsolve/dsolve/ltsolve invert L*D*L^T for every well-formed unit-lower CSC L, D without zeros ===== *)
Theorem C14_solve_inplace_correct :
  forall (n : nat) (Lcols Lind : list nat) (Lvals : list F),
    unit_lower_ok n Lcols Lind Lvals = true ->
    forall Dinv : list F, length Dinv = n ->
    forall D : list F, (forall i, i < n -> (nth i D 0 * nth i Dinv 0)%Qc = 1%Qc) ->
    forall b : list F, length b = n ->
    exists x, solve_inplace Lcols Lind Lvals Dinv b = Ok x /\ length x = n /\
      forall i, i < n -> sum_n n (fun j => LDLt n Lcols Lind Lvals D i j * nth j x 0)%Qc = nth i b 0%Qc.
Proof. exact solve_inplace_correct. Qed.
Print Assumptions C14_solve_inplace_correct.

(* ===== T1 (general): the up-looking recurrence yields L*D*L^T = A ===== *)
Theorem C14_ldl_recurrence_correct :
  forall (n : nat) (a l : nat -> nat -> F) (d : nat -> F) (y : nat -> nat -> F),
    (forall k i, k < n -> i < k -> y k i = (a i k - sum_n i (fun c => l i c * y k c))%Qc) ->
    (forall k i, k < n -> i < k -> l k i = (y k i / d i)%Qc) ->
    (forall k, k < n -> d k = (a k k - sum_n k (fun i => l k i * y k i))%Qc) ->
    (forall i, i < n -> d i <> 0%Qc) ->
    forall i k, i <= k -> k < n -> sum_n (S i) (fun c => Lrec l k c * d c * Lrec l i c)%Qc = a i k.
Proof. exact ldl_recurrence_correct. Qed.
Print Assumptions C14_ldl_recurrence_correct.

(* ===== T1 (general): values never influence indices.  If the index-only run (a function of the pattern) succeeds,
   then for ALL values the real numeric phase succeeds without any error (no out-of-bounds, no division by zero),
   stops exactly at the first zero pivot, which it reports, and on success D_inv is the inverse of D ===== *)
Theorem C14_numeric_erase :
  forall (A : csc F) (li li' : ldl_i),
    let n := nrows A in
    length (vals A) = length (rowind A) ->
    symbolic_i n (colptr A) (rowind A) = Ok li ->
    numeric_i n (colptr A) (rowind A) li = Ok li' ->
    exists r li2 lv2,
      ldl_factor A = Ok (r, (li2, lv2)) /\ r <= n /\
      (forall i, i < r -> nth i (v_D lv2) 0%Qc <> 0%Qc) /\
      (r < n -> nth r (v_D lv2) 0%Qc = 0%Qc) /\
      (r = n -> li2 = li' /\ length (v_Dinv lv2) = n /\ length (v_D lv2) = n /\
                forall i, i < n -> (nth i (v_D lv2) 0 * nth i (v_Dinv lv2) 0)%Qc = 1%Qc).
Proof. exact numeric_erase. Qed.
Print Assumptions C14_numeric_erase.

(* ===== T1 (BOUNDED n <= 5, all 1024+64+8+2+1+1 patterns): index safety and pattern equality ===== *)
Theorem C14_ldl_index_check_n5 :
  forall (n : nat) (adj : nat -> nat -> bool), n <= 5 ->
    ldl_index_check n (fst (pattern_of n adj)) (snd (pattern_of n adj)) = true.
Proof. exact ldl_index_check_n5. Qed.
Print Assumptions C14_ldl_index_check_n5.

Theorem C14_ldl_factor_total_n5 :
  forall (n : nat) (adj : nat -> nat -> bool) (vs : list F), n <= 5 ->
    let Ap := fst (pattern_of n adj) in let Ai := snd (pattern_of n adj) in
    length vs = length Ai ->
    exists r li2 lv2,
      ldl_factor (mkcsc n n Ap Ai vs) = Ok (r, (li2, lv2)) /\ r <= n /\
      (forall i, i < r -> nth i (v_D lv2) 0%Qc <> 0%Qc) /\
      (r < n -> nth r (v_D lv2) 0%Qc = 0%Qc) /\
      (r = n -> i_Lind li2 = concat (map (fill_col n (fill n (has_entry Ap Ai))) (seq 0 n)) /\
                forall i, i < n -> (nth i (v_D lv2) 0 * nth i (v_Dinv lv2) 0)%Qc = 1%Qc).
Proof. exact ldl_factor_total_n5. Qed.
Print Assumptions C14_ldl_factor_total_n5.

(* ===== T1 assembled (BOUNDED n <= 4: all 64+8+2+1+1 patterns, ALL values, by symbolic evaluation + field):
   if the factorisation returns n then L*D*L^T = A entry by entry and solve_inplace inverts A ===== *)
Theorem C14_ldl_sparse_correct_n4 :
  forall (n : nat) (adj : nat -> nat -> bool) (vs b : list F), n <= 4 ->
    let Ap := fst (pattern_of n adj) in let Ai := snd (pattern_of n adj) in
    let A := mkcsc n n Ap Ai vs in
    length vs = length Ai -> length b = n ->
    forall li lv, ldl_factor A = Ok (n, (li, lv)) ->
      (forall i j, i <= j -> j < n ->
         sum_n (S i) (fun c => Lm_of n li lv j c * nth c (v_D lv) 0 * Lm_of n li lv i c)%Qc = csc_get A i j) /\
      exists x, ldl_solve (li, lv) b = Ok x /\ length x = n /\
        forall i, i < n -> sum_n n (fun j => sym_get A i j * nth j x 0)%Qc = nth i b 0%Qc.
Proof. exact ldl_sparse_correct_n4. Qed.
Print Assumptions C14_ldl_sparse_correct_n4.

(* ===== T2 (general): dense unblocked LDL^T and its solve ===== *)
Theorem C14_ldl_dense_unblocked_correct :
  forall m0 : DMat, let size := length m0 in dsquare size m0 = true ->
    exists m ret, unblocked m0 = Ok (m, ret) /\
      (ret = None ->
         (forall c, c < size -> ent m c c <> 0%Qc) /\
         (forall i j, j <= i -> i < size -> sum_n (S j) (fun c => Lmd m i c * ent m c c * Lmd m j c)%Qc = ent m0 i j) /\
         (forall i j, i < j -> j < size -> ent m i j = ent m0 i j)) /\
      (forall r, ret = Some r -> r < size /\ ent m r r = 0%Qc /\ forall c, c < r -> ent m c c <> 0%Qc).
Proof. exact unblocked_correct. Qed.
Print Assumptions C14_ldl_dense_unblocked_correct.

Theorem C14_ldl_dense_unblocked_solve_correct :
  forall (m0 : DMat) (b : list F), let size := length m0 in
    dsquare size m0 = true -> length b = size ->
    forall m, unblocked m0 = Ok (m, None) ->
    exists x, dense_solve m b = Ok x /\ length x = size /\
      forall i, i < size -> sum_n size (fun j => (if j <=? i then ent m0 i j else ent m0 j i) * nth j x 0)%Qc = nth i b 0%Qc.
Proof. exact unblocked_solve_correct. Qed.
Print Assumptions C14_ldl_dense_unblocked_solve_correct.

(* ===== T3: permute_sparse_symmetric_matrix ===== *)
(* general: the kernel only moves values *)
Theorem C14_permute_sym_natural :
  forall (V W : Type) (f : V -> W) (d : V) (A : csc V) (pinv : list nat),
    permute_sym (f d) (mapv f A) pinv = rmap (fun Cm => (mapv f (fst Cm), snd Cm)) (permute_sym d A pinv).
Proof. exact @permute_sym_natural. Qed.
Print Assumptions C14_permute_sym_natural.

(* BOUNDED n <= 4: all patterns, all permutations, all values: C = upper(A(p,p)) entry by entry and the returned
   map sends every stored entry k to its new position (permute_spec_ok is the boolean specification in PermuteProofs.v) *)
Theorem C14_permute_sym_spec_n4 :
  forall (V : Type) (d : V) (n : nat) (adj : nat -> nat -> bool) (P : list nat) (vs : list V),
    n <= 4 -> perm_wf P -> length P = n ->
    let Ap := fst (pattern_of n adj) in let Ai := snd (pattern_of n adj) in
    length vs = length Ai ->
    exists o C a2c,
      ordering_init P = Ok o /\
      permute_sym d (mkcsc n n Ap Ai vs) (oPinv o) = Ok (mapv (fun k => nth k vs d) C, a2c) /\
      permute_spec_ok n Ap Ai (oPinv o) C a2c = true.
Proof. exact @permute_sym_spec_n4. Qed.
Print Assumptions C14_permute_sym_spec_n4.

(* ===== T4 (general): the ordering's inverse, perm and permt ===== *)
Theorem C14_perm_inv :
  forall P, perm_wf P ->
    exists o, ordering_init P = Ok o /\ oP o = P /\ length (oPinv o) = length P /\
      (forall i, i < length P -> nth (nth i P 0) (oPinv o) 0 = i) /\
      (forall i, i < length P -> nth i (oPinv o) 0 < length P /\ nth (nth i (oPinv o) 0) P 0 = i).
Proof. exact ordering_init_correct. Qed.
Print Assumptions C14_perm_inv.

Theorem C14_perm_spec :
  forall (V : Type) (d : V) (o : ordering) (x b : list V),
    (forall i, i < length (oP o) -> nth i (oP o) 0 < length (oP o)) -> length x = length (oP o) -> length b = length (oP o) ->
    exists x', ord_perm o x b = Ok x' /\ length x' = length (oP o) /\
      forall j, j < length (oP o) -> nth j x' d = nth (nth j (oP o) 0) b d.
Proof. exact @ord_perm_spec. Qed.
Print Assumptions C14_perm_spec.

Theorem C14_permt_spec :
  forall (V : Type) (d : V) (o : ordering) (x b : list V),
    perm_wf (oP o) -> length x = length (oP o) -> length b = length (oP o) ->
    exists x', ord_permt o x b = Ok x' /\ length x' = length (oP o) /\
      forall j, j < length (oP o) -> nth (nth j (oP o) 0) x' d = nth j b d.
Proof. exact @ord_permt_spec. Qed.
Print Assumptions C14_permt_spec.

Theorem C14_permt_perm_id :
  forall (V : Type) (d : V) (o : ordering) (x0 x1 b : list V),
    perm_wf (oP o) -> length x0 = length (oP o) -> length x1 = length (oP o) -> length b = length (oP o) ->
    exists y z, ord_perm o x0 b = Ok y /\ ord_permt o x1 y = Ok z /\ z = b.
Proof. exact @permt_perm_id. Qed.
Print Assumptions C14_permt_perm_id.

Theorem C14_perm_permt_id :
  forall (V : Type) (d : V) (o : ordering) (x0 x1 b : list V),
    perm_wf (oP o) -> length x0 = length (oP o) -> length x1 = length (oP o) -> length b = length (oP o) ->
    exists y z, ord_permt o x0 b = Ok y /\ ord_perm o x1 y = Ok z /\ z = b.
Proof. exact @perm_permt_id. Qed.
Print Assumptions C14_perm_permt_id.

(* ===== T5 (general): transpose_no_allocation ===== *)
Theorem C14_transpose_no_alloc_spec :
  forall A C : csc F,
    wf_csc A = true ->
    length (colptr C) = S (nrows A) ->
    nth 0 (colptr C) 0 = 0 ->
    (forall i, i < nrows A -> nth (S i) (colptr C) 0 = nth i (colptr C) 0 + cnt (rowind A) i) ->
    nth (nrows A) (colptr C) 0 <= length (rowind C) ->
    length (vals C) = length (rowind C) ->
    exists C', transpose_no_alloc A C = Ok C' /\
      nrows C' = nrows C /\ ncols C' = ncols C /\
      colptr C' = colptr C /\
      (forall i j, i < nrows A -> csc_get C' j i = csc_get A i j).
Proof. exact transpose_no_alloc_spec. Qed.
Print Assumptions C14_transpose_no_alloc_spec.

(* the same with the allocation C = A.transpose() made explicit: no hypothesis left on C *)
Theorem C14_transpose_after_alloc :
  forall (A : csc F) (ci0 : list nat) (cx0 : list F),
    wf_csc A = true -> length ci0 = length (rowind A) -> length cx0 = length (rowind A) ->
    exists C', transpose_no_alloc A (mkcsc (ncols A) (nrows A) (transpose_colptr A) ci0 cx0) = Ok C' /\
      nrows C' = ncols A /\ ncols C' = nrows A /\ colptr C' = transpose_colptr A /\
      (forall i j, i < nrows A -> csc_get C' j i = csc_get A i j).
Proof. exact transpose_after_alloc. Qed.
Print Assumptions C14_transpose_after_alloc.

(* ===== T6 (general): pre/post_mult_diagonal ===== *)
Theorem C14_pre_mult_diag_spec :
  forall A : csc F, wf_csc A = true -> forall diag : list F, length diag = nrows A ->
    exists A', pre_mult_diagonal A diag = Ok A' /\
      nrows A' = nrows A /\ ncols A' = ncols A /\ colptr A' = colptr A /\ rowind A' = rowind A /\
      forall i j, j < ncols A -> csc_get A' i j = (nth i diag 0 * csc_get A i j)%Qc.
Proof. exact pre_mult_diagonal_spec. Qed.
Print Assumptions C14_pre_mult_diag_spec.

Theorem C14_post_mult_diag_spec :
  forall A : csc F, wf_csc A = true -> forall diag : list F, length diag = ncols A ->
    exists A', post_mult_diagonal A diag = Ok A' /\
      nrows A' = nrows A /\ ncols A' = ncols A /\ colptr A' = colptr A /\ rowind A' = rowind A /\
      forall i j, j < ncols A -> csc_get A' i j = (csc_get A i j * nth j diag 0)%Qc.
Proof. exact post_mult_diagonal_spec. Qed.
Print Assumptions C14_post_mult_diag_spec.

(* ===== non-vacuity: the hypotheses are satisfiable by concrete non-trivial instances ===== *)
Definition exA : csc F :=     (* upper triangle of [[4,1,2],[1,3,0],[2,0,5]] with fill-in at (2,1) *)
  mkcsc 3 3 [0; 1; 3; 5] [0; 0; 1; 0; 2] [qofZ 4; qofZ 1; qofZ 3; qofZ 2; qofZ 5].

Example ex_factor_runs :
  match ldl_factor exA with
  | Ok (r, (li, lv)) => (r =? 3) && unit_lower_ok 3 (i_Lcols li) (i_Lind li) (v_Lvals lv) && (length (v_Dinv lv) =? 3)
                        && forallb (fun i => qeqb (nth i (v_D lv) 0 * nth i (v_Dinv lv) 0)%Qc 1%Qc) (seq 0 3)
                        && list_eqb (i_Lind li) [1; 2; 2]
  | Err _ => false
  end = true.
Proof. vm_compute. reflexivity. Qed.

Example ex_pattern_is_enumerated : pattern_of 3 (fun i j => negb ((i =? 1) && (j =? 2))) = (colptr exA, rowind exA).
Proof. vm_compute. reflexivity. Qed.

Example ex_zero_pivot_reported :   (* [[1,1],[1,1]]: pivot 1 is zero: the count 1 is returned, nothing is divided by it *)
  match ldl_factor (mkcsc 2 2 [0; 1; 3] [0; 0; 1] [qofZ 1; qofZ 1; qofZ 1]) with
  | Ok (r, (li, lv)) => (r =? 1) && qeqb (nth 1 (v_D lv) 0%Qc) 0%Qc
  | Err _ => false
  end = true.
Proof. vm_compute. reflexivity. Qed.

Example ex_perm_wf : perm_wf [2; 0; 1].
Proof. split. repeat constructor; simpl; intuition lia. simpl. intuition lia. Qed.

Example ex_transpose_hyps :
  let G : csc F := mkcsc 2 3 [0; 1; 3; 4] [1; 0; 1; 0] [qofZ 1; qofZ 2; qofZ 3; qofZ 4] in
  let C : csc F := mkcsc 3 2 (transpose_colptr G) [0; 0; 0; 0] [0; 0; 0; 0]%Qc in
  wf_csc G = true /\ length (colptr C) = S (nrows G) /\ nth 0 (colptr C) 0 = 0 /\
  (forall i, i < nrows G -> nth (S i) (colptr C) 0 = nth i (colptr C) 0 + cnt (rowind G) i) /\
  nth (nrows G) (colptr C) 0 <= length (rowind C) /\ length (vals C) = length (rowind C).
Proof.
  cbv zeta. repeat split; try (vm_compute; reflexivity); try (vm_compute; lia).
  intros i Hi. simpl in Hi. assert (i = 0 \/ i = 1) as [-> | ->] by lia; vm_compute; reflexivity.
Qed.

Example ex_dense_unblocked :
  let m0 : DMat := [[qofZ 4; qofZ 1; qofZ 2]; [qofZ 1; qofZ 3; qofZ 0]; [qofZ 2; qofZ 0; qofZ 5]] in
  dsquare (length m0) m0 = true /\ match unblocked m0 with Ok (_, None) => true | _ => false end = true.
Proof. split; vm_compute; reflexivity. Qed.

(* an instance of the recurrence hypotheses: A = [[4,2],[2,3]], l(1,0) = 1/2, d = (4, 2), y_1(0) = 2 *)
Example ex_recurrence_hyps :
  let a := fun i k => if (i =? 0) && (k =? 0) then qofZ 4 else if (i =? 0) && (k =? 1) then qofZ 2 else qofZ 3 in
  let l := fun (k i : nat) => qmk 1 2 in
  let d := fun k => if k =? 0 then qofZ 4 else qofZ 2 in
  let y := fun (k i : nat) => qofZ 2 in
  (forall k i, k < 2 -> i < k -> y k i = (a i k - sum_n i (fun c => l i c * y k c))%Qc) /\
  (forall k i, k < 2 -> i < k -> l k i = (y k i / d i)%Qc) /\
  (forall k, k < 2 -> d k = (a k k - sum_n k (fun i => l k i * y k i))%Qc) /\
  (forall i, i < 2 -> d i <> 0%Qc).
Proof.
  cbv zeta. repeat split.
  - intros k i Hk Hi. assert (k = 1 /\ i = 0) as [-> ->] by lia. apply Qc_is_canon. vm_compute. reflexivity.
  - intros k i Hk Hi. assert (k = 1 /\ i = 0) as [-> ->] by lia. apply Qc_is_canon. vm_compute. reflexivity.
  - intros k Hk. assert (k = 0 \/ k = 1) as [-> | ->] by lia; apply Qc_is_canon; vm_compute; reflexivity.
  - intros i Hi. assert (i = 0 \/ i = 1) as [-> | ->] by lia; intros H; apply (f_equal this) in H; vm_compute in H; discriminate.
Qed.
