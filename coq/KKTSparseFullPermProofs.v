(* KKTSparseFullPermProofs.v -- C13 / T1b, T2 for the sparse KKT_FULL back end under an arbitrary fill-reducing ordering.
   The stored matrix PKPt is the image of the identity-ordering matrix of KKTSparseFullProofs.v under the map PKi returned by
   permute_sparse_symmetric_matrix; every in-place loop addresses it through ordering.inv / PKi, so the permuted state simulates
   the identity-ordering state step by step.  The facts about permute_sym that this needs are the decidable hypothesis
   perm_addr_okb (KKTSparseFullPerm.v) -- the theorems are therefore named ..._partial: they hold for every ordering on which
   the check evaluates to true (the model driver evaluates it on every tested ordering; C14_permute_sym_spec_n4 proves the
   corresponding specification of permute_sym for all patterns and permutations with n <= 4). *)
From PIQP Require Import Base CSC C14LemmasProofs CSCProofs LinAlg KKTProofs KKTSparseFull KKTSparseFullProofs KKTSparseFullPerm PermuteProofs.
From Coq Require Import Permutation.
Local Open Scope nat_scope.

(* ================================================================ lists, sums *)
Lemma nodupb_inj l i j : nodupb l = true -> i < length l -> j < length l -> nth i l 0 = nth j l 0 -> i = j.
Proof.
  unfold nodupb. intros H Hi Hj E. rewrite forallb_forall in H.
  destruct (Nat.lt_trichotomy i j) as [Lt|[Eq|Lt]]; auto; exfalso.
  - specialize (H j ltac:(apply in_seq; lia)). rewrite forallb_forall in H. specialize (H i ltac:(apply in_seq; lia)).
    rewrite E, Nat.eqb_refl in H. discriminate.
  - specialize (H i ltac:(apply in_seq; lia)). rewrite forallb_forall in H. specialize (H j ltac:(apply in_seq; lia)).
    rewrite E, Nat.eqb_refl in H. discriminate.
Qed.

Lemma NoDup_map_local {A B} (f : A -> B) l : NoDup l -> (forall x y, In x l -> In y l -> f x = f y -> x = y) -> NoDup (map f l).
Proof.
  induction 1 as [|a l Ha Hl IH]; intros Hinj; simpl; constructor.
  - intros Hin. apply in_map_iff in Hin as (y & Ey & Hy). apply Ha. rewrite (Hinj a y); auto; [left; auto | right; auto].
  - apply IH. intros x y Hx Hy. apply Hinj; right; auto.
Qed.

Lemma qsum_perm l l' : Permutation l l' -> qsum l = qsum l'.
Proof. induction 1; unfold qsum in *; simpl; try congruence; fring. Qed.

(* re-indexing a sum along a bijection of [0, L) *)
Lemma qsum_bij L (phi : nat -> nat) (f g : nat -> F) :
  (forall q, q < L -> phi q < L) -> (forall q q', q < L -> q' < L -> phi q = phi q' -> q = q') ->
  (forall q, q < L -> g (phi q) = f q) ->
  qsum (map f (seq 0 L)) = qsum (map g (seq 0 L)).
Proof.
  intros Hr Hi Hfg.
  assert (HP : Permutation (map phi (seq 0 L)) (seq 0 L)).
  { apply NoDup_Permutation_bis.
    - apply NoDup_map_local; [apply seq_NoDup|]. intros x y Hx Hy. apply in_seq in Hx, Hy. apply Hi; lia.
    - rewrite map_length. lia.
    - intros x Hx. apply in_map_iff in Hx as (y & <- & Hy). apply in_seq in Hy. apply in_seq. specialize (Hr y). lia. }
  rewrite <- (qsum_perm _ _ (Permutation_map g HP)). rewrite map_map.
  apply qsum_map_ext. intros q Hq. apply in_seq in Hq. symmetry. apply Hfg. lia.
Qed.

(* a sum over a sub-range as a sum over the whole range *)
Lemma qsum_range_extend (h : nat -> F) lo hi L : lo <= hi -> hi <= L ->
  qsum (map h (seq lo (hi - lo))) = qsum (map (fun q => if (lo <=? q) && (q <? hi) then h q else 0%Qc) (seq 0 L)).
Proof.
  intros H1 H2. remember (L - hi) as k eqn:Ek. assert (EL : L = lo + ((hi - lo) + k)) by lia. clear Ek H2. subst L.
  rewrite (seq_app lo ((hi - lo) + k) 0), (seq_app (hi - lo) k (0 + lo)), !map_app, !qsum_app. cbn [Nat.add].
  rewrite (qsum_map_zero _ (seq 0 lo)).
  2:{ intros q Hq. apply in_seq in Hq. destruct (Nat.leb_spec lo q); [lia|reflexivity]. }
  rewrite (qsum_map_zero _ (seq (lo + (hi - lo)) k)).
  2:{ intros q Hq. apply in_seq in Hq. destruct (Nat.ltb_spec q hi); [lia|]. now rewrite andb_false_r. }
  rewrite (qsum_map_ext (fun q => if (lo <=? q) && (q <? hi) then h q else 0%Qc) h (seq lo (hi - lo))).
  2:{ intros q Hq. apply in_seq in Hq. destruct (Nat.leb_spec lo q); [|lia]. destruct (Nat.ltb_spec q hi); [reflexivity|lia]. }
  fring.
Qed.

Lemma dec_bounded (pos : nat -> nat) n q : (exists x, x < n /\ pos x = q) \/ (forall x, x < n -> pos x <> q).
Proof.
  induction n as [|n [(x & Hx & E)|H]].
  - right. intros; lia.
  - left. exists x. split; auto.
  - destruct (Nat.eq_dec (pos n) q) as [E|Ne].
    + left. exists n. split; auto.
    + right. intros x Hx. destruct (Nat.eq_dec x n); [subst; auto|apply H; lia].
Qed.

(* ================================================================ the permuted state simulates the identity-ordering state *)
Section Sim.
Variable d : sdata.
Hypothesis Hwf : wf_sdata d.
Variables (pinv kpC kiC a2c : list nat).
Local Notation n := (sd_n d). Local Notation p := (sd_p d). Local Notation m := (sd_m d).
Local Notation N := (sd_n d + sd_p d + sd_m d).
Local Notation L := (koff d (sd_n d + sd_p d + sd_m d)).
Definition phi (q : nat) : nat := nth q a2c 0.

Hypothesis Ha_len : length a2c = L.
Hypothesis Ha_lt : forall q, q < L -> phi q < L.
Hypothesis Ha_inj : forall q q', q < L -> q' < L -> phi q = phi q' -> q = q'.
Hypothesis Ha_dp : forall col, col < N -> dpos pinv kpC col = Ok (phi (dp_id d col)).

Definition vrel (kxI kxP : Vec) : Prop := forall q, q < L -> nth (phi q) kxP 0%Qc = nth q kxI 0%Qc.

Definition perm_state (kid kp : skkt) : Prop :=
  fk_pinv kp = pinv /\ fk_kp kp = kpC /\ fk_ki kp = kiC /\ fk_PKi kp = a2c /\
  fk_P2K kp = fk_P2K kid /\ fk_AT2K kp = fk_AT2K kid /\ fk_GT2K kp = fk_GT2K kid /\ fk_Pdiag kp = fk_Pdiag kid /\
  scal_of kp = scal_of kid /\ length (fk_kx kid) = L /\ length (fk_kx kp) = L /\ vrel (fk_kx kid) (fk_kx kp).

Lemma vrel_preserved (kxI kxI' kxP kxP' : Vec) cnt (posI : nat -> nat) :
  (forall x, x < cnt -> posI x < L) ->
  (forall x, x < cnt -> nth (phi (posI x)) kxP' 0%Qc = nth (posI x) kxI' 0%Qc) ->
  (forall q, (forall x, x < cnt -> posI x <> q) -> nth q kxI' 0%Qc = nth q kxI 0%Qc) ->
  (forall q, (forall x, x < cnt -> phi (posI x) <> q) -> nth q kxP' 0%Qc = nth q kxP 0%Qc) ->
  vrel kxI kxP -> vrel kxI' kxP'.
Proof.
  intros Hlt Hv HI HP R q Hq.
  destruct (dec_bounded posI cnt q) as [(x & Hx & <-)|Hno].
  - now apply Hv.
  - rewrite HI by auto. rewrite HP; [now apply R|].
    intros x Hx E. apply Ha_inj in E; auto. now apply (Hno x).
Qed.

Lemma dpP_lt col : col < N -> phi (dp_id d col) < L.
Proof. intros. apply Ha_lt. now apply dp_id_lt. Qed.
Lemma dpP_inj c c' : c < N -> c' < N -> phi (dp_id d c) = phi (dp_id d c') -> c = c'.
Proof. intros Hc Hc' E. apply Ha_inj in E; try (apply dp_id_lt; auto). now apply dp_id_inj in E. Qed.

Lemma dpos_kid kid col : id_state d kid -> col < N -> dpos (fk_pinv kid) (fk_kp kid) col = Ok (dp_id d col).
Proof. intros (E & _ & (Lkp & Hkp & _) & _) Hc. rewrite E. apply dpos_id; auto. Qed.
Lemma dpos_kp kid kp col : perm_state kid kp -> col < N -> dpos (fk_pinv kp) (fk_kp kp) col = Ok (phi (dp_id d col)).
Proof. intros (-> & -> & _) Hc. now apply Ha_dp. Qed.

Lemma scal_fields k k' : scal_of k = scal_of k' ->
  fk_rho k = fk_rho k' /\ fk_delta k = fk_delta k' /\ fk_s k = fk_s k' /\ fk_s_lb k = fk_s_lb k' /\ fk_s_ub k = fk_s_ub k' /\
  fk_z_inv k = fk_z_inv k' /\ fk_z_lb_inv k = fk_z_lb_inv k' /\ fk_z_ub_inv k = fk_z_ub_inv k'.
Proof. unfold scal_of. intros E. injection E. auto 10. Qed.

Lemma Dg_code_same dd k k' pd col : scal_of k = scal_of k' -> Dg_code dd k pd col = Dg_code dd k' pd col.
Proof. intros E. destruct (scal_fields _ _ E) as (A1 & A2 & A3 & A4 & A5 & A6 & A7 & A8). unfold Dg_code. rewrite A1, A2, A3, A4, A5, A6, A7, A8. reflexivity. Qed.

Lemma perm_state_set_kx kid kp (kxI kxP : Vec) : perm_state kid kp -> length kxI = L -> length kxP = L -> vrel kxI kxP ->
  perm_state (set_kx kid kxI) (set_kx kp kxP).
Proof.
  intros (A1 & A2 & A3 & A4 & A5 & A6 & A7 & A8 & A9 & _ & _ & _) LI LP R.
  destruct kid, kp. simpl in *. repeat (split; [assumption|]). assumption.
Qed.

(* the four loops of update_scalings *)
Lemma sim_refresh kid kp : id_state d kid -> perm_state kid kp -> scal_ok d (scal_of kid) ->
  exists kxI kxP, refresh_scalings d kid = Ok (set_kx kid kxI) /\ refresh_scalings d kp = Ok (set_kx kp kxP) /\
                  perm_state (set_kx kid kxI) (set_kx kp kxP).
Proof.
  intros Hid HS Hsc. pose proof HS as (E1 & E2 & E3 & E4 & E5 & E6 & E7 & E8 & E9 & LI & LP & R).
  pose proof Hid as (_ & _ & _ & [Lpd _]).
  destruct (refresh_scalings_ok d kid L (dp_id d)) as (kxI & EI & LkI & HI1 & HI2); auto.
  { intros; now apply dpos_kid. } { intros; now apply dp_id_lt. } { intros c c' _ _; apply dp_id_inj. }
  destruct (refresh_scalings_ok d kp L (fun col => phi (dp_id d col))) as (kxP & EP & LkP & HP1 & HP2); auto.
  { intros; now apply (dpos_kp kid). } { intros; now apply dpP_lt. } { apply dpP_inj. } { now rewrite E9. } { now rewrite E8. }
  exists kxI, kxP. split; auto. split; auto.
  apply perm_state_set_kx; auto.
  apply (vrel_preserved (fk_kx kid) kxI (fk_kx kp) kxP N (dp_id d) (fun x H => dp_id_lt d x H)); auto.
  intros x Hx. rewrite HP1, HI1 by auto. rewrite E8. apply Dg_code_same. exact E9.
Qed.

(* update_kkt_box_scalings alone (the end of init) *)
Lemma sim_box dd kid kp : sd_n dd = n -> sd_p dd = p -> sd_m dd = m -> id_state d kid -> perm_state kid kp -> scal_ok dd (scal_of kid) ->
  exists kxI kxP, update_kkt_box_scalings dd kid (fk_kx kid) = Ok kxI /\ update_kkt_box_scalings dd kp (fk_kx kp) = Ok kxP /\
                  length kxI = L /\ length kxP = L /\ vrel kxI kxP.
Proof.
  intros En Ep Em Hid HS Hsc. pose proof HS as (E1 & E2 & E3 & E4 & E5 & E6 & E7 & E8 & E9 & LI & LP & R).
  destruct (box_both_ok dd kid L (dp_id d)) with (kx0 := fk_kx kid) as (kxI & EI & LkI & HI1 & HI2); auto.
  { intros col Hc. apply dpos_kid; auto. rewrite En, Ep, Em in Hc. lia. } { intros col Hc; apply dp_id_lt. rewrite En, Ep, Em in Hc. lia. }
  { intros c c' _ _; apply dp_id_inj. }
  destruct (box_both_ok dd kp L (fun col => phi (dp_id d col))) with (kx0 := fk_kx kp) as (kxP & EP & LkP & HP1 & HP2); auto.
  { intros col Hc. apply (dpos_kp kid); auto. rewrite En, Ep, Em in Hc. lia. } { intros col Hc. apply dpP_lt. rewrite En, Ep, Em in Hc. lia. }
  { intros c c' Hc Hc'. apply dpP_inj; rewrite En, Ep, Em in *; lia. } { now rewrite E9. }
  exists kxI, kxP. repeat (split; [assumption|]). rewrite En in *.
  apply (vrel_preserved (fk_kx kid) kxI (fk_kx kp) kxP n (dp_id d)); auto.
  - intros x Hx. apply dp_id_lt. lia.
  - intros x Hx. rewrite HP1, HI1 by auto. rewrite R by (apply dp_id_lt; lia).
    destruct (scal_fields _ _ E9) as (A1 & A2 & A3 & A4 & A5 & A6 & A7 & A8). rewrite A2, A4, A5, A7, A8. reflexivity.
Qed.

(* the scatter of a rectangular block (update_data, A or G bit) *)
Lemma sim_scatter kid kp (m2kI m2kP : list nat) (src : Vec) cnt :
  perm_state kid kp -> fk_PKi kid = seq 0 L -> m2kP = m2kI -> cnt <= length src ->
  (forall k, k < cnt -> k < length m2kI /\ nth k m2kI 0 < L) ->
  (forall k k', k < cnt -> k' < cnt -> nth k m2kI 0 = nth k' m2kI 0 -> k = k') ->
  exists kxI kxP, scatter_vals m2kI (fk_PKi kid) src cnt (fk_kx kid) = Ok kxI /\
                  scatter_vals m2kP (fk_PKi kp) src cnt (fk_kx kp) = Ok kxP /\
                  length kxI = L /\ length kxP = L /\ vrel kxI kxP /\
                  (forall k, k < cnt -> nth (nth k m2kI 0) kxI 0%Qc = nth k src 0%Qc) /\
                  (forall q, (forall k, k < cnt -> nth k m2kI 0 <> q) -> nth q kxI 0%Qc = nth q (fk_kx kid) 0%Qc).
Proof.
  intros HS Epki -> Lsrc Hm Hinj. pose proof HS as (E1 & E2 & E3 & E4 & E5 & E6 & E7 & E8 & E9 & LI & LP & R).
  destruct (scatter_vals_ok m2kI (fk_PKi kid) L (fun k => nth k m2kI 0) cnt) with (src := src) (kx0 := fk_kx kid)
    as (kxI & EI & LkI & HI1 & HI2); auto.
  { intros k Hk. destruct (Hm k Hk) as [H1 H2]. rewrite Epki, seq_length. split; auto. split; auto. now rewrite seq_nth. }
  { intros k Hk. now apply Hm. }
  destruct (scatter_vals_ok m2kI (fk_PKi kp) L (fun k => phi (nth k m2kI 0)) cnt) with (src := src) (kx0 := fk_kx kp)
    as (kxP & EP & LkP & HP1 & HP2); auto.
  { intros k Hk. destruct (Hm k Hk) as [H1 H2]. rewrite E4, Ha_len. auto. }
  { intros k Hk. apply Ha_lt. now apply Hm. }
  { intros k k' Hk Hk' E. apply Ha_inj in E; try (now apply Hm). now apply Hinj. }
  exists kxI, kxP. repeat (split; [assumption|]). split; [|split; assumption].
  apply (vrel_preserved (fk_kx kid) kxI (fk_kx kp) kxP cnt (fun k => nth k m2kI 0)); auto.
  - intros x Hx. now apply Hm.
  - intros x Hx. rewrite HP1, HI1 by auto. reflexivity.
Qed.

(* addressing of the identity-ordered state, independent of values and cached diagonal *)
Definition id_addr (kid : skkt) : Prop := forall col, col < N -> dpos (fk_pinv kid) (fk_kp kid) col = Ok (dp_id d col).
Lemma id_state_addr kid : id_state d kid -> id_addr kid.
Proof. intros H col Hc. now apply dpos_kid. Qed.

(* the relation without the value storage *)
Definition perm_fields (kid kp : skkt) : Prop :=
  fk_pinv kp = pinv /\ fk_kp kp = kpC /\ fk_ki kp = kiC /\ fk_PKi kp = a2c /\
  fk_P2K kp = fk_P2K kid /\ fk_AT2K kp = fk_AT2K kid /\ fk_GT2K kp = fk_GT2K kid /\ fk_Pdiag kp = fk_Pdiag kid /\
  scal_of kp = scal_of kid.
Lemma perm_state_fields kid kp : perm_state kid kp -> perm_fields kid kp.
Proof. intros (A1 & A2 & A3 & A4 & A5 & A6 & A7 & A8 & A9 & _). repeat split; assumption. Qed.

Lemma sim_cost_box dd kid kp (kxI kxP : Vec) : sd_n dd = n -> sd_p dd = p -> sd_m dd = m ->
  id_addr kid -> perm_fields kid kp -> scal_ok dd (scal_of kid) -> length (fk_Pdiag kid) = n ->
  length kxI = L -> length kxP = L -> vrel kxI kxP ->
  exists kxI' kxP',
    (do kx <- update_kkt_cost_scalings dd kid kxI ;; update_kkt_box_scalings dd kid kx) = Ok kxI' /\
    (do kx <- update_kkt_cost_scalings dd kp kxP ;; update_kkt_box_scalings dd kp kx) = Ok kxP' /\
    length kxI' = L /\ length kxP' = L /\ vrel kxI' kxP'.
Proof.
  intros En Ep Em Hida (E1 & E2 & E3 & E4 & E5 & E6 & E7 & E8 & E9) Hsc Lpd LI LP R.
  assert (HdI : forall col, col < sd_n dd + sd_p dd + sd_m dd -> dpos (fk_pinv kid) (fk_kp kid) col = Ok (dp_id d col))
    by (intros col Hc; apply Hida; rewrite En, Ep, Em in Hc; exact Hc).
  assert (HdP : forall col, col < sd_n dd + sd_p dd + sd_m dd -> dpos (fk_pinv kp) (fk_kp kp) col = Ok (phi (dp_id d col)))
    by (intros col Hc; rewrite E1, E2; apply Ha_dp; rewrite En, Ep, Em in Hc; exact Hc).
  assert (HlI : forall col, col < sd_n dd + sd_p dd + sd_m dd -> dp_id d col < L)
    by (intros col Hc; apply dp_id_lt; rewrite En, Ep, Em in Hc; exact Hc).
  assert (HlP : forall col, col < sd_n dd + sd_p dd + sd_m dd -> phi (dp_id d col) < L)
    by (intros col Hc; apply dpP_lt; rewrite En, Ep, Em in Hc; exact Hc).
  assert (HiP : forall c c', c < sd_n dd + sd_p dd + sd_m dd -> c' < sd_n dd + sd_p dd + sd_m dd -> phi (dp_id d c) = phi (dp_id d c') -> c = c')
    by (intros c c' Hc Hc'; apply dpP_inj; rewrite En, Ep, Em in *; assumption).
  unfold update_kkt_cost_scalings.
  destruct (cost_scalings_ok (fk_pinv kid) (fk_kp kid) _ L (dp_id d) HdI HlI (fun c c' _ _ => dp_id_inj d c c') (sd_n dd) (fk_Pdiag kid) (fk_rho kid) kxI)
    as (kxI1 & EI1 & LI1 & HI1 & HI1'); try lia.
  destruct (cost_scalings_ok (fk_pinv kp) (fk_kp kp) _ L (fun col => phi (dp_id d col)) HdP HlP HiP (sd_n dd) (fk_Pdiag kp) (fk_rho kp) kxP)
    as (kxP1 & EP1 & LP1 & HP1 & HP1'); try lia.
  { rewrite E8. lia. }
  rewrite EI1, EP1. cbn [bind].
  assert (R1 : vrel kxI1 kxP1).
  { apply (vrel_preserved kxI kxI1 kxP kxP1 (sd_n dd) (dp_id d)); auto.
    - intros x Hx. apply dp_id_lt. lia.
    - intros x Hx. rewrite HP1, HI1 by auto. rewrite E8. destruct (scal_fields _ _ E9) as (-> & _). reflexivity. }
  destruct (box_both_ok dd kid L (dp_id d) HdI HlI (fun c c' _ _ => dp_id_inj d c c') Hsc kxI1 LI1) as (kxI2 & EI2 & LI2 & HI2 & HI2').
  destruct (box_both_ok dd kp L (fun col => phi (dp_id d col)) HdP HlP HiP) with (kx0 := kxP1) as (kxP2 & EP2 & LP2 & HP2 & HP2'); auto.
  { now rewrite E9. }
  exists kxI2, kxP2. repeat (split; [assumption|]).
  apply (vrel_preserved kxI1 kxI2 kxP1 kxP2 (sd_n dd) (dp_id d)); auto.
  - intros x Hx. apply dp_id_lt. lia.
  - intros x Hx. rewrite HP2, HI2 by auto. rewrite R1 by (apply dp_id_lt; lia).
    destruct (scal_fields _ _ E9) as (A1 & A2 & A3 & A4 & A5 & A6 & A7 & A8). rewrite A2, A4, A5, A7, A8. reflexivity.
Qed.

Lemma sim_P_vals (P1 : csc F) kid kp : wf_csc P1 = true -> diag_only_last P1 -> perm_state kid kp -> fk_PKi kid = seq 0 L ->
  (forall k, k < nnz P1 -> k < length (fk_P2K kid) /\ nth k (fk_P2K kid) 0 < L) ->
  (forall k k', k < nnz P1 -> k' < nnz P1 -> nth k (fk_P2K kid) 0 = nth k' (fk_P2K kid) 0 -> k = k') ->
  length (fk_Pdiag kid) = ncols P1 ->
  exists kxI kxP pd,
    update_P_vals P1 (fk_P2K kid) (fk_PKi kid) (fk_kx kid, fk_Pdiag kid) = Ok (kxI, pd) /\
    update_P_vals P1 (fk_P2K kp) (fk_PKi kp) (fk_kx kp, fk_Pdiag kp) = Ok (kxP, pd) /\
    length kxI = L /\ length kxP = L /\ vrel kxI kxP /\ length pd = ncols P1.
Proof.
  intros HwP1 Hdol HS Epki Hm Hinj Lpd. pose proof HS as (E1 & E2 & E3 & E4 & E5 & E6 & E7 & E8 & E9 & LI & LP & R).
  destruct (update_P_vals_ok P1 HwP1 Hdol (fk_P2K kid) (fk_PKi kid) L (fun k => nth k (fk_P2K kid) 0)) with (kx0 := fk_kx kid) (pdiag0 := fk_Pdiag kid)
    as (kxI & pdI & EI & LkI & HI1 & HI2 & LpdI & HpdI); auto.
  { intros k Hk. destruct (Hm k Hk) as [H1 H2]. rewrite Epki, seq_length. split; auto. split; auto. now rewrite seq_nth. }
  { intros k Hk. now apply Hm. }
  destruct (update_P_vals_ok P1 HwP1 Hdol (fk_P2K kp) (fk_PKi kp) L (fun k => phi (nth k (fk_P2K kid) 0))) with (kx0 := fk_kx kp) (pdiag0 := fk_Pdiag kp)
    as (kxP & pdP & EP & LkP & HP1 & HP2 & LpdP & HpdP); auto.
  { intros k Hk. destruct (Hm k Hk) as [H1 H2]. rewrite E5, E4, Ha_len. auto. }
  { intros k Hk. apply Ha_lt. now apply Hm. }
  { intros k k' Hk Hk' E. apply Ha_inj in E; try (now apply Hm). now apply Hinj. }
  { now rewrite E8. }
  assert (Epd : pdP = pdI).
  { apply (nth_ext _ _ (0%Qc : F) (0%Qc : F)); [congruence|]. intros j Hj. rewrite LpdP in Hj. rewrite HpdP, HpdI by auto. now rewrite E8. }
  subst pdP. exists kxI, kxP, pdI. repeat (split; [assumption|]). split; [|assumption].
  apply (vrel_preserved (fk_kx kid) kxI (fk_kx kp) kxP (nnz P1) (fun k => nth k (fk_P2K kid) 0)); auto.
  - intros x Hx. now apply Hm.
  - intros x Hx. rewrite HP1, HI1 by auto. reflexivity.
Qed.

Lemma perm_fields_set_kx_pdiag kid kp kxI kxP pd : perm_fields kid kp -> perm_fields (set_kx_pdiag kid kxI pd) (set_kx_pdiag kp kxP pd).
Proof. intros (A1 & A2 & A3 & A4 & A5 & A6 & A7 & A8 & A9). destruct kid, kp. simpl in *. repeat split; assumption. Qed.
Lemma id_addr_set_kx_pdiag kid kx pd : id_addr kid -> id_addr (set_kx_pdiag kid kx pd).
Proof. destruct kid. exact (fun H => H). Qed.
Lemma perm_state_of_fields kid kp kxI kxP : perm_fields kid kp -> length kxI = L -> length kxP = L -> vrel kxI kxP ->
  perm_state (set_kx kid kxI) (set_kx kp kxP).
Proof. intros (A1 & A2 & A3 & A4 & A5 & A6 & A7 & A8 & A9) LI LP R. destruct kid, kp. simpl in *. repeat (split; [assumption|]). assumption. Qed.

(* update_data, P bit: scatter of the Hessian values, refresh of the cached diagonal, cost and box loops *)
Lemma sim_data_P px lbs ubs kid kp : id_state d kid -> perm_state kid kp -> diag_only_last (sd_P d) -> length px = nnz (sd_P d) ->
  scal_ok (with_P d px lbs ubs) (scal_of kid) ->
  exists kid' kp', update_data_P (with_P d px lbs ubs) kid = Ok kid' /\ update_data_P (with_P d px lbs ubs) kp = Ok kp' /\ perm_state kid' kp'.
Proof.
  intros Hid HS Hdol Lpx Hsc. pose proof Hid as (Epinv & Epki & Hst & [Lpd _]).
  pose proof Hwf as (HwP & _ & HcP & _).
  pose proof HS as (_ & _ & _ & _ & _ & _ & _ & _ & _ & LI & _).
  unfold update_data_P. change (sd_P (with_P d px lbs ubs)) with (set_vals (sd_P d) px).
  destruct (sim_P_vals (set_vals (sd_P d) px) kid kp) as (kxI & kxP & pd & EI & EP & LkI & LkP & R & Lpd'); auto.
  - now apply wf_set_vals.
  - intros k Hk. change (nnz (set_vals (sd_P d) px)) with (nnz (sd_P d)) in Hk.
    destruct (pos_decomp (sd_P d) HwP k Hk) as (j & i & Hj & Hi & ->). rewrite HcP in Hj.
    destruct (p2k_points d Hwf _ _ _ _ _ Hst _ LI j i Hj Hi) as (Q1 & _). unfold nnz in Q1. cbn [rowind] in Q1.
    pose proof Hst as (_ & _ & Lki & _ & Lp & _). rewrite Lki in Q1. split; [unfold nnz in *; lia|exact Q1].
  - apply (p2k_inj d Hwf _ _ _ _ _ Hst _ LI).
  - cbn [set_vals ncols]. now rewrite HcP.
  - unfold Vec in *. rewrite EI, EP. cbn [bind]. cbv zeta.
    set (k1I := set_kx_pdiag kid kxI pd). set (k1P := set_kx_pdiag kp kxP pd).
    assert (F1 : perm_fields k1I k1P) by (apply perm_fields_set_kx_pdiag; now apply perm_state_fields).
    assert (A1 : id_addr k1I) by (apply id_addr_set_kx_pdiag; now apply id_state_addr).
    assert (X1 : fk_kx k1I = kxI) by (unfold k1I; destruct kid; reflexivity).
    assert (X2 : fk_kx k1P = kxP) by (unfold k1P; destruct kp; reflexivity).
    assert (X3 : fk_Pdiag k1I = pd) by (unfold k1I; destruct kid; reflexivity).
    assert (X4 : scal_of k1I = scal_of kid) by (unfold k1I; destruct kid; reflexivity).
    rewrite X1, X2.
    destruct (sim_cost_box (with_P d px lbs ubs) k1I k1P kxI kxP) as (kxI' & kxP' & EI' & EP' & LI' & LP' & R'); auto.
    + rewrite X3. cbn [set_vals ncols] in Lpd'. now rewrite Lpd', HcP.
    + destruct (update_kkt_cost_scalings (with_P d px lbs ubs) k1I kxI) as [kxa|]; [|discriminate]. cbn [bind] in EI'.
      destruct (update_kkt_cost_scalings (with_P d px lbs ubs) k1P kxP) as [kxb|]; [|discriminate]. cbn [bind] in EP'.
      cbn [bind]. rewrite EI', EP'. cbn [bind]. eexists; eexists. split; [reflexivity|]. split; [reflexivity|].
      now apply perm_state_of_fields.
Qed.

Lemma sim_data_A ax kid kp : id_state d kid -> perm_state kid kp -> length ax = nnz (sd_AT d) ->
  exists kxI kxP, update_data_A (with_AT d ax) kid = Ok (set_kx kid kxI) /\ update_data_A (with_AT d ax) kp = Ok (set_kx kp kxP) /\
                  perm_state (set_kx kid kxI) (set_kx kp kxP).
Proof.
  intros Hid HS Lax. pose proof Hid as (Epinv & Epki & Hst & _). pose proof Hwf as (_ & _ & _ & HwA & _ & HcA & _).
  pose proof HS as (_ & _ & _ & _ & _ & E6 & _ & _ & _ & LI & _).
  unfold update_data_A. change (vals (sd_AT (with_AT d ax))) with ax. change (nnz (sd_AT (with_AT d ax))) with (nnz (sd_AT d)).
  destruct (sim_scatter kid kp (fk_AT2K kid) (fk_AT2K kp) ax (nnz (sd_AT d))) as (kxI & kxP & EI & EP & LkI & LkP & R & _); auto; try lia.
  - intros k Hk. destruct (pos_decomp (sd_AT d) HwA k Hk) as (l & i & Hl & Hi & ->). rewrite HcA in Hl.
    destruct (a2k_points d Hwf _ _ _ _ _ Hst _ LI l i Hl Hi) as (Q1 & _). unfold nnz in Q1. cbn [rowind] in Q1.
    pose proof Hst as (_ & _ & Lki & _ & _ & _ & La & _). rewrite Lki in Q1. split; [unfold nnz in *; lia|exact Q1].
  - apply (a2k_inj d Hwf _ _ _ _ _ Hst _ LI).
  - rewrite EI, EP. cbn [bind]. exists kxI, kxP. split; auto. split; auto. now apply perm_state_set_kx.
Qed.

Lemma sim_data_G gx kid kp : id_state d kid -> perm_state kid kp -> length gx = nnz (sd_GT d) ->
  exists kxI kxP, update_data_G (with_GT d gx) kid = Ok (set_kx kid kxI) /\ update_data_G (with_GT d gx) kp = Ok (set_kx kp kxP) /\
                  perm_state (set_kx kid kxI) (set_kx kp kxP).
Proof.
  intros Hid HS Lgx. pose proof Hid as (Epinv & Epki & Hst & _). pose proof Hwf as (_ & _ & _ & _ & _ & _ & HwG & _ & HcG).
  pose proof HS as (_ & _ & _ & _ & _ & _ & E7 & _ & _ & LI & _).
  unfold update_data_G. change (vals (sd_GT (with_GT d gx))) with gx. change (nnz (sd_GT (with_GT d gx))) with (nnz (sd_GT d)).
  destruct (sim_scatter kid kp (fk_GT2K kid) (fk_GT2K kp) gx (nnz (sd_GT d))) as (kxI & kxP & EI & EP & LkI & LkP & R & _); auto; try lia.
  - intros k Hk. destruct (pos_decomp (sd_GT d) HwG k Hk) as (l & i & Hl & Hi & ->). rewrite HcG in Hl.
    destruct (g2k_points d Hwf _ _ _ _ _ Hst _ LI l i Hl Hi) as (Q1 & _). unfold nnz in Q1. cbn [rowind] in Q1.
    pose proof Hst as (_ & _ & Lki & _ & _ & _ & _ & _ & Lg & _). rewrite Lki in Q1. split; [unfold nnz in *; lia|exact Q1].
  - apply (g2k_inj d Hwf _ _ _ _ _ Hst _ LI).
  - rewrite EI, EP. cbn [bind]. exists kxI, kxP. split; auto. split; auto. now apply perm_state_set_kx.
Qed.
End Sim.

(* ================================================================ what the permuted matrix denotes *)
Section PermDenote.
Variable d : sdata.
Hypothesis Hwf : wf_sdata d.
Hypothesis Hup : upper_only (sd_P d) = true.
Variables (pinv kpC kiC a2c : list nat).
Variables (kp ki p2k a2k g2k : list nat).
Hypothesis Hst : static_spec d kp ki p2k a2k g2k.
Local Notation N := (sd_n d + sd_p d + sd_m d).
Local Notation L := (koff d (sd_n d + sd_p d + sd_m d)).
Local Notation phi := (phi a2c).
Local Notation pv := (fun c => nth c pinv 0).
Local Notation cpC := (fun c => nth c kpC 0).

Hypothesis Ha_lt : forall q, q < L -> phi q < L.
Hypothesis Ha_inj : forall q q', q < L -> q' < L -> phi q = phi q' -> q = q'.
Hypothesis Hpv_lt : forall c, c < N -> pv c < N.
Hypothesis Hpv_inj : forall c c', c < N -> c' < N -> pv c = pv c' -> c = c'.
Hypothesis Hcp_mono : forall c c', c <= c' -> c' <= N -> cpC c <= cpC c'.
Hypothesis Hcp_last : cpC N = L.
(* entry (krow c i, c) of the KKT matrix is stored in row min / column max of the permuted indices *)
Hypothesis Hent : forall c i, c < N -> i < klen d c ->
  let q := phi (koff d c + i) in
  nth q kiC 0 = Nat.min (pv (krow d c i)) (pv c) /\
  cpC (Nat.max (pv (krow d c i)) (pv c)) <= q < cpC (S (Nat.max (pv (krow d c i)) (pv c))).

Theorem perm_denotes (kxI kxP : Vec) : length kxI = L -> vrel d a2c kxI kxP ->
  forall i j, i <= j -> j < N ->
    csc_get (mkcsc N N kpC kiC kxP) (Nat.min (pv i) (pv j)) (Nat.max (pv i) (pv j)) = csc_get (mkcsc N N kp ki kxI) i j.
Proof.
  intros LI R i j Hij Hj.
  pose proof Hst as (Lkp & Hkp & Lki & Hki & _).
  set (r' := Nat.min (pv i) (pv j)). set (c' := Nat.max (pv i) (pv j)).
  assert (Hc' : c' < N) by (unfold c'; pose proof (Hpv_lt i ltac:(lia)); pose proof (Hpv_lt j Hj); lia).
  unfold csc_get. cbn [colptr rowind vals]. cbv zeta.
  rewrite !Hkp by lia. rewrite koff_S. replace (koff d j + klen d j - koff d j) with (koff d (S j) - koff d j) by (rewrite koff_S; lia).
  assert (HKS : koff d (S j) <= L) by (apply koff_mono; lia).
  rewrite (qsum_range_extend _ (koff d j) (koff d (S j)) L) by (try apply koff_mono; lia).
  rewrite (qsum_range_extend _ (cpC c') (cpC (S c')) L) by (try (rewrite <- Hcp_last); apply Hcp_mono; lia).
  symmetry. apply (qsum_bij L phi); auto.
  intros q Hq. destruct (koff_decomp d N q Hq) as (cq & iq & Hcq & Hiq & ->).
  destruct (Hent cq iq Hcq Hiq) as [Er [Hc1 Hc2]]. cbv zeta in *.
  rewrite Er. rewrite R by auto. rewrite Hki by auto.
  set (rq := krow d cq iq) in *.
  assert (Hrq : rq < N) by (apply krow_lt; auto).
  assert (Hrle : rq <= cq) by (apply krow_upper; auto).
  pose proof (Hpv_lt rq Hrq) as B1. pose proof (Hpv_lt cq Hcq) as B2. pose proof (Hpv_lt i ltac:(lia)) as B3. pose proof (Hpv_lt j Hj) as B4.
  assert (G0 : ~ (rq = i /\ cq = j) -> forall X : F,
            (if (cpC c' <=? phi (koff d cq + iq)) && (phi (koff d cq + iq) <? cpC (S c'))
             then if Nat.min (pv rq) (pv cq) =? r' then X else 0%Qc else 0%Qc) = 0%Qc).
  { intros Hne X. set (cm := Nat.max (pv rq) (pv cq)) in *.
    destruct (Nat.eq_dec cm c') as [Ecm|Ncm].
    - destruct ((cpC c' <=? phi (koff d cq + iq)) && (phi (koff d cq + iq) <? cpC (S c'))); [|reflexivity].
      destruct (Nat.eqb_spec (Nat.min (pv rq) (pv cq)) r') as [Em|?Hn]; [|reflexivity].
      exfalso. apply Hne. unfold cm, c', r' in *.
      assert ((pv rq = pv i /\ pv cq = pv j) \/ (pv rq = pv j /\ pv cq = pv i)) as [[E1 E2]|[E1 E2]] by lia.
      + split; apply Hpv_inj; auto; lia.
      + assert (rq = j) by (apply Hpv_inj; auto). assert (cq = i) by (apply Hpv_inj; auto; lia). split; lia.
    - destruct (Nat.lt_ge_cases cm c').
      + assert (cpC (S cm) <= cpC c') by (apply Hcp_mono; lia).
        destruct (Nat.leb_spec (cpC c') (phi (koff d cq + iq))); [lia|reflexivity].
      + assert (cpC (S c') <= cpC cm) by (apply Hcp_mono; unfold cm in *; lia).
        destruct (Nat.ltb_spec (phi (koff d cq + iq)) (cpC (S c'))); [lia|]. now rewrite andb_false_r. }
  destruct (Nat.eq_dec cq j) as [Ecq|Ncq]; [destruct (Nat.eq_dec rq i) as [Erq|Nrq]|].
  - (* the entry (i, j) itself *)
    subst cq. rewrite Erq. fold r' c' in Hc1, Hc2 |- *. rewrite Erq in Hc1, Hc2. fold c' in Hc1, Hc2.
    assert (Hi' : koff d j + iq < koff d (S j)) by (rewrite koff_S; lia).
    destruct (Nat.leb_spec (koff d j) (koff d j + iq)) as [?Hy|?Hn]; [|lia].
    destruct (Nat.ltb_spec (koff d j + iq) (koff d (S j))) as [?Hy|?Hn]; [|lia].
    destruct (Nat.leb_spec (cpC c') (phi (koff d j + iq))) as [?Hy|?Hn]; [|lia].
    destruct (Nat.ltb_spec (phi (koff d j + iq)) (cpC (S c'))) as [?Hy|?Hn]; [|lia].
    cbn [andb]. rewrite !Nat.eqb_refl. reflexivity.
  - (* same column, another row *)
    rewrite G0 by (intros [? ?]; contradiction).
    destruct ((koff d j <=? koff d cq + iq) && (koff d cq + iq <? koff d (S j))); [|reflexivity].
    destruct (Nat.eqb_spec rq i) as [?Hy|?Hn]; [contradiction|reflexivity].
  - (* another column *)
    rewrite G0 by (intros [? ?]; contradiction).
    assert (Hout : (koff d j <=? koff d cq + iq) && (koff d cq + iq <? koff d (S j)) = false).
    { destruct (Nat.lt_ge_cases cq j).
      - assert (koff d cq + iq < koff d j) by (apply koff_lt; auto). destruct (Nat.leb_spec (koff d j) (koff d cq + iq)); [lia|reflexivity].
      - assert (koff d (S j) <= koff d cq) by (apply koff_mono; lia).
        destruct (Nat.ltb_spec (koff d cq + iq) (koff d (S j))); [lia|]. now rewrite andb_false_r. }
    now rewrite Hout.
Qed.
End PermDenote.

(* ================================================================ from the boolean check to the hypotheses *)
Lemma forallb_nth (f : nat -> bool) l i : forallb f l = true -> i < length l -> f (nth i l 0) = true.
Proof. intros H Hi. rewrite forallb_forall in H. apply H. now apply nth_In. Qed.

Section FromCheck.
Variable d : sdata.
Hypothesis Hwf : wf_sdata d.
Local Notation N := (sd_n d + sd_p d + sd_m d).
Local Notation L := (koff d (sd_n d + sd_p d + sd_m d)).
Variables (kp ki p2k a2k g2k : list nat).
Hypothesis Hst : static_spec d kp ki p2k a2k g2k.
Variables (pinv : list nat) (C : csc nat) (a2c : list nat).
Hypothesis Hok : perm_spec_okb N kp ki pinv C a2c = true.
Local Notation pv := (fun c => nth c pinv 0).
Local Notation cpC := (fun c => nth c (colptr C) 0).

Let Lki : length ki = L. Proof. apply Hst. Qed.
Let Hkp : forall c, c <= N -> nth c kp 0 = koff d c. Proof. apply Hst. Qed.
Let Hki : forall c i, c < N -> i < klen d c -> nth (koff d c + i) ki 0 = krow d c i. Proof. apply Hst. Qed.

Lemma chk_parts :
  (length pinv = N /\ (forall c, c < N -> pv c < N) /\ (forall c c', c < N -> c' < N -> pv c = pv c' -> c = c')) /\
  (nrows C = N /\ ncols C = N /\ wf_csc C = true /\ length (rowind C) = L) /\
  (length a2c = L /\ (forall q, q < L -> phi a2c q < L) /\ (forall q q', q < L -> q' < L -> phi a2c q = phi a2c q' -> q = q')) /\
  (forall c i, c < N -> i < klen d c ->
     let q := phi a2c (koff d c + i) in
     nth q (rowind C) 0 = Nat.min (pv (krow d c i)) (pv c) /\
     cpC (Nat.max (pv (krow d c i)) (pv c)) <= q < cpC (S (Nat.max (pv (krow d c i)) (pv c))) /\
     nth q (vals C) 0 = koff d c + i) /\
  (forall col, col < N -> cpC (pv col) < cpC (S (pv col)) /\ phi a2c (dp_id d col) = cpC (S (pv col)) - 1 /\
                          nth (cpC (S (pv col)) - 1) (rowind C) 0 = pv col).
Proof.
  unfold perm_spec_okb in Hok. cbv zeta in Hok. rewrite !andb_true_iff in Hok.
  destruct Hok as (((((((((((B1 & B2) & B3) & B4) & B5) & B6) & B7) & B8) & B9) & B10) & B11) & B12).
  apply Nat.eqb_eq in B1, B4, B5, B7, B8. rewrite Lki in *.
  split; [|split; [|split; [|split]]].
  - split; [exact B1|]. split.
    + intros c Hc. apply Nat.ltb_lt. apply (forallb_nth (fun c => c <? N)); auto. lia.
    + intros c c' Hc Hc'. apply nodupb_inj; auto; lia.
  - auto.
  - split; [exact B8|]. split.
    + intros q Hq. apply Nat.ltb_lt. unfold phi. apply (forallb_nth (fun q => q <? L)); auto. lia.
    + intros q q' Hq Hq'. unfold phi. apply nodupb_inj; auto; lia.
  - intros c i Hc Hi. cbv zeta. rewrite forallb_forall in B11. specialize (B11 c ltac:(apply in_seq; lia)).
    rewrite forallb_forall in B11. specialize (B11 (koff d c + i)).
    rewrite !Hkp in B11 by lia. rewrite koff_S in B11.
    specialize (B11 ltac:(apply in_seq; lia)). rewrite Hki in B11 by auto.
    rewrite !andb_true_iff in B11. destruct B11 as (((D1 & D2) & D3) & D4).
    apply Nat.eqb_eq in D1, D4. apply Nat.leb_le in D2. apply Nat.ltb_lt in D3. unfold phi. auto.
  - intros col Hc. rewrite forallb_forall in B12. specialize (B12 col ltac:(apply in_seq; lia)). cbv zeta in B12.
    rewrite !andb_true_iff in B12. destruct B12 as ((D1 & D2) & D3).
    apply Nat.ltb_lt in D1. apply Nat.eqb_eq in D2, D3. rewrite Hkp in D2 by lia. split; auto.
Qed.

Lemma chk_dpos col : col < N -> dpos pinv (colptr C) col = Ok (phi a2c (dp_id d col)).
Proof.
  intros Hc. destruct chk_parts as ((P1 & P2 & _) & (_ & C2 & C3 & _) & _ & _ & HD).
  destruct (HD col Hc) as (D1 & D2 & _).
  unfold dpos. rewrite (get_nth pinv col 0) by lia. cbn [bind].
  rewrite (get_nth (colptr C) _ 0) by (rewrite (wf_cp_len C C3), C2; specialize (P2 col Hc); lia). cbn [bind].
  rewrite pred_chk_pos by lia. now rewrite D2.
Qed.

Lemma chk_cp_mono c c' : c <= c' -> c' <= N -> cpC c <= cpC c'.
Proof.
  intros H H'. destruct chk_parts as (_ & (_ & C2 & C3 & _) & _). apply nondecb_mono; auto.
  - apply (wf_cp_nondec C C3).
  - rewrite (wf_cp_len C C3). lia.
Qed.
Lemma chk_cp_last : cpC N = L.
Proof. destruct chk_parts as (_ & (_ & C2 & C3 & C4) & _). rewrite <- C4. rewrite <- C2 at 1. apply (wf_cp_last C C3). Qed.
End FromCheck.

(* ================================================================ top level *)
(* kp is the image of the identity-ordered state kid under the ordering perm: ordering_init and permute_sym (run on positions)
   succeed, the result passes the check, and all fields / values correspond through the returned map *)
Definition perm_img (d : sdata) (perm : list nat) (kid kp : skkt) : Prop :=
  let N := sd_n d + sd_p d + sd_m d in
  exists o Cpos a2c,
    ordering_init perm = Ok o /\
    permute_sym (length (fk_ki kid)) (mkcsc N N (fk_kp kid) (fk_ki kid) (seq 0 (length (fk_ki kid)))) (oPinv o) = Ok (Cpos, a2c) /\
    perm_spec_okb N (fk_kp kid) (fk_ki kid) (oPinv o) Cpos a2c = true /\
    perm_state d (oPinv o) (colptr Cpos) (rowind Cpos) a2c kid kp.

Lemma perm_addr_okb_inv N Kp Ki perm : perm_addr_okb N Kp Ki perm = true ->
  exists o Cpos a2c, ordering_init perm = Ok o /\
    permute_sym (length Ki) (mkcsc N N Kp Ki (seq 0 (length Ki))) (oPinv o) = Ok (Cpos, a2c) /\
    perm_spec_okb N Kp Ki (oPinv o) Cpos a2c = true.
Proof.
  unfold perm_addr_okb. cbv zeta. destruct (ordering_init perm) as [o|] eqn:E1; [|discriminate].
  destruct (permute_sym _ _ _) as [[Cpos a2c]|] eqn:E2; [|discriminate]. intros H. exists o, Cpos, a2c. split; [reflexivity|]. split; [exact E2|exact H].
Qed.

Section TopPerm.
Variable d : sdata.
Hypothesis Hwf : wf_sdata d.
Local Notation N := (sd_n d + sd_p d + sd_m d).
Local Notation L := (koff d (sd_n d + sd_p d + sd_m d)).

(* init under an ordering that passes the check: the permuted state is the image of the identity-ordered one *)
Theorem init_full_perm_partial rho delta perm km :
  scal_ok d (unit_scal d rho delta) ->
  create_kkt_matrix d rho delta = Ok km ->
  perm_addr_okb N (colptr (km_K km)) (rowind (km_K km)) perm = true ->
  exists kid kp, init d rho delta None = Ok kid /\ init d rho delta (Some perm) = Ok kp /\
                 fresh_form d (unit_scal d rho delta) kid /\ perm_img d perm kid kp.
Proof.
  intros Hsc Ekm Hchk.
  destruct (init_fresh d Hwf rho delta Hsc) as (kid & Eid & Hf).
  destruct (create_kkt_spec d Hwf 0 0%Qc rho delta) as (km' & E & Hr & Hc & Hst & Lkx & Hv & Hpd).
  unfold create_kkt_matrix in Ekm. rewrite E in Ekm. injection Ekm as ->.
  destruct (perm_addr_okb_inv _ _ _ _ Hchk) as (o & Cpos & a2c & Eo & Eperm & Hok).
  pose proof Hst as (Lkp & Hkp & Lki & _).
  destruct (chk_parts d (colptr (km_K km)) (rowind (km_K km)) (km_P2K km) (km_AT2K km) (km_GT2K km) Hst (oPinv o) Cpos a2c Hok)
    as ((P1 & P2 & P3) & (C1 & C2 & C3 & C4) & (A1 & A2 & A3) & Hent & HD).
  (* the run on values, by naturality *)
  set (f := fun k => nth k (vals (km_K km)) 0%Qc).
  assert (Eval : permute_sym 0%Qc (km_K km) (oPinv o) = Ok (mapv f Cpos, a2c)).
  { pose proof (permute_sym_natural f (length (rowind (km_K km))) (mkcsc N N (colptr (km_K km)) (rowind (km_K km)) (seq 0 (length (rowind (km_K km))))) (oPinv o)) as Nat.
    rewrite Eperm in Nat. cbn [rmap fst snd] in Nat.
    replace (f (length (rowind (km_K km)))) with (0%Qc : F) in Nat by (unfold f; rewrite nth_overflow; [reflexivity|unfold Vec, F in *; lia]).
    replace (mapv f (mkcsc N N (colptr (km_K km)) (rowind (km_K km)) (seq 0 (length (rowind (km_K km)))))) with (km_K km) in Nat; [exact Nat|].
    unfold mapv. cbn [nrows ncols colptr rowind vals]. unfold f. rewrite Lki, <- Lkx. rewrite seq_map_nth.
    rewrite (csc_eta (km_K km)) at 1. now rewrite Hr, Hc. }
  (* both computations *)
  unfold init in Eid |- *. unfold create_kkt_matrix in *. rewrite E in *. cbn [bind] in *. cbv zeta in *.
  rewrite Eo. cbn [bind]. rewrite Eval. cbn [bind].
  set (kid0 := mkskkt _ _ _ _ _ _ _ _ (seq 0 (fk_N d)) _ _ _ _ _ _ _ _) in *.
  set (kp0 := mkskkt _ _ _ _ _ _ _ _ (oPinv o) _ _ _ _ _ _ _ _).
  assert (Hid0 : id_state d kid0).
  { unfold id_state, kid0. cbn [fk_pinv fk_PKi fk_kp fk_ki fk_P2K fk_AT2K fk_GT2K fk_Pdiag]. unfold fk_N, nnz. rewrite Lki. auto. }
  assert (HS0 : perm_state d (oPinv o) (colptr Cpos) (rowind Cpos) a2c kid0 kp0).
  { unfold perm_state, kid0, kp0. cbn [fk_pinv fk_PKi fk_kp fk_ki fk_P2K fk_AT2K fk_GT2K fk_Pdiag fk_kx scal_of mapv colptr rowind vals].
    repeat (split; [reflexivity|]). split; [exact Lkx|]. split; [rewrite map_length, (wf_vals_len Cpos C3); exact C4|].
    intros q Hq. destruct (koff_decomp d N q Hq) as (c & i & Hc0 & Hi & ->).
    destruct (Hent c i Hc0 Hi) as (_ & _ & Ev). cbv zeta in Ev.
    assert (Hlt : phi a2c (koff d c + i) < length (vals Cpos)) by (rewrite (wf_vals_len Cpos C3), C4; apply A2; auto).
    rewrite (nth_indep _ 0%Qc (f 0)) by (rewrite map_length; exact Hlt). rewrite map_nth. rewrite Ev. reflexivity. }
  destruct (sim_box d (oPinv o) (colptr Cpos) (rowind Cpos) a2c A1 A2 A3
              (chk_dpos d _ _ _ _ _ Hst (oPinv o) Cpos a2c Hok) d kid0 kp0) as (kxI & kxP & EI & EP & LI & LP & R); auto.
  assert (X : fk_kx kid0 = vals (km_K km)) by reflexivity.
  rewrite EI in Eid. cbn [bind] in Eid. injection Eid as <-.
  rewrite EI, EP. cbn [bind]. exists (set_kx kid0 kxI), (set_kx kp0 kxP). split; [reflexivity|]. split; [reflexivity|]. split; [exact Hf|].
  exists o, Cpos, a2c. split; [exact Eo|].
  replace (fk_ki (set_kx kid0 kxI)) with (rowind (km_K km)) by reflexivity.
  replace (fk_kp (set_kx kid0 kxI)) with (colptr (km_K km)) by reflexivity.
  split; [exact Eperm|]. split; [exact Hok|].
  apply perm_state_set_kx; auto.
Qed.
End TopPerm.

Lemma perm_state_kp_ki d pinv kpC kiC a2c kid kp : perm_state d pinv kpC kiC a2c kid kp ->
  fk_pinv kp = pinv /\ fk_kp kp = kpC /\ fk_ki kp = kiC /\ length (fk_kx kid) = koff d (sd_n d + sd_p d + sd_m d) /\
  length (fk_kx kp) = koff d (sd_n d + sd_p d + sd_m d) /\ vrel d a2c (fk_kx kid) (fk_kx kp).
Proof. intros (A1 & A2 & A3 & _ & _ & _ & _ & _ & _ & LI & LP & R). auto 10. Qed.

(* what the permuted stored matrix denotes: P K_full P^T, upper triangle, diagonal last *)
Theorem perm_img_denotes_partial d c perm kid kp :
  wf_sdata d -> upper_only (sd_P d) = true -> fresh_form d c kid -> perm_img d perm kid kp ->
  let N := sd_n d + sd_p d + sd_m d in
  let pv := fun i => nth i (fk_pinv kp) 0 in
  wf_csc (fk_PKPt d kp) = true /\ diag_is_last (fk_PKPt d kp) /\
  (forall i, i < N -> pv i < N) /\ (forall i i', i < N -> i' < N -> pv i = pv i' -> i = i') /\
  forall i j, i <= j -> j < N ->
    csc_get (fk_PKPt d kp) (Nat.min (pv i) (pv j)) (Nat.max (pv i) (pv j)) = Kfull (sys_sparse d c) i j.
Proof.
  intros Hwf Hup Hf (o & Cpos & a2c & Eo & Eperm & Hok & HS). cbv zeta.
  pose proof Hf as ((_ & _ & Hst & _) & _ & Hmf).
  destruct (perm_state_kp_ki _ _ _ _ _ _ _ HS) as (E1 & E2 & E3 & LI & LP & R).
  destruct (chk_parts d _ _ _ _ _ Hst (oPinv o) Cpos a2c Hok) as ((P1 & P2 & P3) & (C1 & C2 & C3 & C4) & (A1 & A2 & A3) & Hent & HD).
  unfold fk_PKPt, fk_N. rewrite E1, E2, E3.
  assert (Hw : wf_csc (mkcsc (sd_n d + sd_p d + sd_m d) (sd_n d + sd_p d + sd_m d) (colptr Cpos) (rowind Cpos) (fk_kx kp)) = true).
  { unfold wf_csc in *. cbn [colptr ncols nrows rowind vals]. rewrite C1, C2 in C3. rewrite !andb_true_iff in *.
    destruct C3 as (((((W1 & W2) & W3) & W4) & W5) & W6). repeat split; auto. apply Nat.eqb_eq. now rewrite LP, C4. }
  split; [exact Hw|]. split.
  - intros j Hj. cbn [ncols] in Hj. unfold cp. cbn [colptr rowind].
    assert (Hpw : perm_wf (oPinv o)).
    { split. - apply (NoDup_nth _ 0). intros a b Ha Hb. apply P3; lia.
      - intros x Hx. apply (In_nth _ _ 0) in Hx as (k & Hk & <-). rewrite P1 in *. now apply P2. }
    destruct (perm_wf_surj (oPinv o) j Hpw ltac:(lia)) as (col & Hcol & <-). rewrite P1 in Hcol.
    destruct (HD col Hcol) as (D1 & _ & D3). auto.
  - split; [exact P2|]. split; [exact P3|]. intros i j Hij Hj.
    rewrite (perm_denotes d Hwf Hup (oPinv o) (colptr Cpos) (rowind Cpos) a2c _ _ _ _ _ Hst A2 A3 P2 P3
               (chk_cp_mono d _ _ _ _ _ Hst (oPinv o) Cpos a2c Hok) (chk_cp_last d _ _ _ _ _ Hst (oPinv o) Cpos a2c Hok)) with (kxI := fk_kx kid); auto.
    + destruct (fresh_form_denotes d Hwf c kid Hf) as (_ & _ & _ & G). apply G; auto.
    + intros c0 i0 Hc0 Hi0. destruct (Hent c0 i0 Hc0 Hi0) as (X1 & X2 & _). auto.
Qed.

Lemma perm_state_set_scal d pinv kpC kiC a2c kid kp c : perm_state d pinv kpC kiC a2c kid kp ->
  perm_state d pinv kpC kiC a2c (set_scal kid c) (set_scal kp c).
Proof.
  intros (A1 & A2 & A3 & A4 & A5 & A6 & A7 & A8 & A9 & LI & LP & R).
  destruct kid, kp, c. simpl in *. repeat (split; [assumption || reflexivity|]). assumption.
Qed.
Lemma pattern_set_kx_scal k c kx : fk_kp (set_kx (set_scal k c) kx) = fk_kp k /\ fk_ki (set_kx (set_scal k c) kx) = fk_ki k.
Proof. destruct k. split; reflexivity. Qed.
Lemma pattern_set_kx k kx : fk_kp (set_kx k kx) = fk_kp k /\ fk_ki (set_kx k kx) = fk_ki k.
Proof. destruct k. split; reflexivity. Qed.

Lemma update_scalings_unfold d k rho delta s s_lb s_ub z z_lb z_ub zi zlbi zubi :
  sd_nlb d <= length s_lb -> sd_nlb d <= length z_lb -> sd_nub d <= length s_ub -> sd_nub d <= length z_ub ->
  vinv z = Ok zi -> vinv (head (sd_nlb d) z_lb) = Ok zlbi -> vinv (head (sd_nub d) z_ub) = Ok zubi ->
  update_scalings d k rho delta s s_lb s_ub z z_lb z_ub =
  refresh_scalings d (set_scal k (mkscal rho delta s (set_head (head (sd_nlb d) s_lb) (fk_s_lb k)) (set_head (head (sd_nub d) s_ub) (fk_s_ub k))
                                         zi (set_head zlbi (fk_z_lb_inv k)) (set_head zubi (fk_z_ub_inv k)))).
Proof.
  intros L1 L2 L3 L4 E1 E2 E3. unfold update_scalings, chk_len.
  destruct (Nat.ltb_spec (length s_lb) (sd_nlb d)) as [?Hy|?Hn]; [lia|].
  destruct (Nat.ltb_spec (length z_lb) (sd_nlb d)) as [?Hy|?Hn]; [lia|].
  destruct (Nat.ltb_spec (length s_ub) (sd_nub d)) as [?Hy|?Hn]; [lia|].
  destruct (Nat.ltb_spec (length z_ub) (sd_nub d)) as [?Hy|?Hn]; [lia|].
  cbn [bind]. rewrite E1, E2, E3. reflexivity.
Qed.

(* (c) under an ordering that passes the check *)
Theorem update_scalings_full_perm_partial d c0 perm kid kp rho delta s s_lb s_ub z z_lb z_ub zi zlbi zubi :
  wf_sdata d -> fresh_form d c0 kid -> perm_img d perm kid kp ->
  sd_nlb d <= length s_lb -> sd_nlb d <= length z_lb -> sd_nub d <= length s_ub -> sd_nub d <= length z_ub ->
  vinv z = Ok zi -> vinv (head (sd_nlb d) z_lb) = Ok zlbi -> vinv (head (sd_nub d) z_ub) = Ok zubi ->
  scal_ok d (new_scal d c0 rho delta s s_lb s_ub zi zlbi zubi) ->
  exists kid' kp',
    update_scalings d kid rho delta s s_lb s_ub z z_lb z_ub = Ok kid' /\
    update_scalings d kp rho delta s s_lb s_ub z z_lb z_ub = Ok kp' /\
    fresh_form d (new_scal d c0 rho delta s s_lb s_ub zi zlbi zubi) kid' /\ perm_img d perm kid' kp'.
Proof.
  intros Hwf Hf (o & Cpos & a2c & Eo & Eperm & Hok & HS) L1 L2 L3 L4 E1 E2 E3 Hsc.
  pose proof Hf as (Hid & Esc & Hmf). pose proof Hid as (_ & _ & Hst & _).
  destruct (chk_parts d _ _ _ _ _ Hst (oPinv o) Cpos a2c Hok) as (_ & _ & (A1 & A2 & A3) & _).
  destruct (update_scalings_fresh d c0 kid rho delta s s_lb s_ub z z_lb z_ub zi zlbi zubi) as (kid' & Eid' & Hf'); auto.
  assert (Ec' : forall k, scal_of (set_scal k (new_scal d c0 rho delta s s_lb s_ub zi zlbi zubi)) = new_scal d c0 rho delta s s_lb s_ub zi zlbi zubi) by reflexivity.
  destruct (sim_refresh d (oPinv o) (colptr Cpos) (rowind Cpos) a2c A2 A3 (chk_dpos d _ _ _ _ _ Hst (oPinv o) Cpos a2c Hok)
              (set_scal kid (new_scal d c0 rho delta s s_lb s_ub zi zlbi zubi)) (set_scal kp (new_scal d c0 rho delta s s_lb s_ub zi zlbi zubi)))
    as (kxI & kxP & EI & EP & HS').
  { now apply id_state_set_scal. } { now apply perm_state_set_scal. } { now rewrite Ec'. }
  assert (Esk : scal_of kp = scal_of kid) by (destruct HS as (_ & _ & _ & _ & _ & _ & _ & _ & X & _); exact X).
  destruct (scal_fields _ _ Esk) as (_ & _ & _ & F4 & F5 & _ & F7 & F8).
  assert (G4 : fk_s_lb kid = sc_s_lb c0) by (rewrite <- Esc; reflexivity).
  assert (G5 : fk_s_ub kid = sc_s_ub c0) by (rewrite <- Esc; reflexivity).
  assert (G7 : fk_z_lb_inv kid = sc_z_lb_inv c0) by (rewrite <- Esc; reflexivity).
  assert (G8 : fk_z_ub_inv kid = sc_z_ub_inv c0) by (rewrite <- Esc; reflexivity).
  rewrite (update_scalings_unfold d kid rho delta s s_lb s_ub z z_lb z_ub zi zlbi zubi) in * by auto.
  rewrite (update_scalings_unfold d kp rho delta s s_lb s_ub z z_lb z_ub zi zlbi zubi) by auto.
  rewrite F4, F5, F7, F8. rewrite G4, G5, G7, G8 in *.
  change (mkscal rho delta s (set_head (head (sd_nlb d) s_lb) (sc_s_lb c0)) (set_head (head (sd_nub d) s_ub) (sc_s_ub c0)) zi
                 (set_head zlbi (sc_z_lb_inv c0)) (set_head zubi (sc_z_ub_inv c0))) with (new_scal d c0 rho delta s s_lb s_ub zi zlbi zubi) in *.
  rewrite EI in Eid'. injection Eid' as <-. rewrite EI, EP.
  eexists; eexists. split; [reflexivity|]. split; [reflexivity|]. split; [exact Hf'|].
  exists o, Cpos, a2c. destruct (pattern_set_kx_scal kid (new_scal d c0 rho delta s s_lb s_ub zi zlbi zubi) kxI) as [-> ->]. auto.
Qed.

(* ---------- transport along a change of values ---------- *)
Lemma dp_id_with_P d px lbs ubs col : dp_id (with_P d px lbs ubs) col = dp_id d col.
Proof. unfold dp_id. now rewrite koff_with_P. Qed.
Lemma dp_id_with_AT d ax col : dp_id (with_AT d ax) col = dp_id d col.
Proof. unfold dp_id. now rewrite koff_with_AT. Qed.
Lemma perm_state_with_P d px lbs ubs pinv kpC kiC a2c kid kp :
  perm_state d pinv kpC kiC a2c kid kp -> perm_state (with_P d px lbs ubs) pinv kpC kiC a2c kid kp.
Proof. unfold perm_state, vrel. cbn [with_P sd_n sd_p sd_m]. rewrite !koff_with_P. exact (fun H => H). Qed.
Lemma perm_state_with_AT d ax pinv kpC kiC a2c kid kp :
  perm_state d pinv kpC kiC a2c kid kp -> perm_state (with_AT d ax) pinv kpC kiC a2c kid kp.
Proof. unfold perm_state, vrel. cbn [with_AT sd_n sd_p sd_m]. rewrite !koff_with_AT. exact (fun H => H). Qed.
Lemma perm_state_with_GT d gx pinv kpC kiC a2c kid kp :
  perm_state d pinv kpC kiC a2c kid kp -> perm_state (with_GT d gx) pinv kpC kiC a2c kid kp.
Proof. unfold perm_state, vrel. cbn [with_GT sd_n sd_p sd_m]. rewrite !koff_with_GT. exact (fun H => H). Qed.

(* (d) under an ordering that passes the check: both states move to the canonical state of the new data and its image *)
Theorem update_data_full_perm_partial d c perm kid kp mask px ax gx lbs ubs :
  wf_sdata d -> diag_only_last (sd_P d) -> fresh_form d c kid -> perm_img d perm kid kp ->
  length px = nnz (sd_P d) -> length ax = nnz (sd_AT d) -> length gx = nnz (sd_GT d) ->
  covers mask d px ax gx lbs ubs -> scal_ok (with_P d px lbs ubs) c ->
  let d' := with_all d px ax gx lbs ubs in
  exists kid' kp', update_data d' kid mask = Ok kid' /\ update_data d' kp mask = Ok kp' /\
                   fresh_form d' c kid' /\ perm_img d' perm kid' kp'.
Proof.
  intros Hwf Hdol Hf (o & Cpos & a2c & Eo & Eperm & Hok & HS) Lp La Lg (C0 & C1 & C2) Hsc. cbv zeta.
  unfold update_data, with_all.
  set (d1 := with_P d px lbs ubs). set (d2 := with_AT d1 ax). set (d3 := with_GT d2 gx).
  assert (Hwf1 : wf_sdata d1) by (apply wf_with_P; auto).
  assert (Hwf2 : wf_sdata d2) by (apply wf_with_AT; auto).
  pose proof Hf as ((_ & _ & Hst & _) & Esc & _).
  destruct (chk_parts d _ _ _ _ _ Hst (oPinv o) Cpos a2c Hok) as (_ & _ & (A1 & A2 & A3) & _).
  pose proof (chk_dpos d _ _ _ _ _ Hst (oPinv o) Cpos a2c Hok) as A4.
  set (PS := fun dd => perm_state dd (oPinv o) (colptr Cpos) (rowind Cpos) a2c).
  (* P *)
  assert (S1 : exists k1 q1, (if Nat.testbit mask 0 then update_data_P d3 kid else Ok kid) = Ok k1 /\
                             (if Nat.testbit mask 0 then update_data_P d3 kp else Ok kp) = Ok q1 /\ fresh_form d1 c k1 /\ PS d k1 q1).
  { destruct (Nat.testbit mask 0).
    - change (update_data_P d3 kid) with (update_data_P d1 kid). change (update_data_P d3 kp) with (update_data_P d1 kp).
      destruct (update_data_P_fresh d Hwf c kid px lbs ubs) as (k1 & E1 & F1); auto.
      destruct (sim_data_P d Hwf (oPinv o) (colptr Cpos) (rowind Cpos) a2c A1 A2 A3 A4 px lbs ubs kid kp) as (k1' & q1 & E1' & Eq1 & HS1); auto.
      { apply Hf. } { destruct Hf as (_ & -> & _). exact Hsc. }
      rewrite E1 in E1'. injection E1' as <-. exists k1, q1. auto.
    - destruct (C0 eq_refl) as (-> & -> & ->). exists kid, kp. split; [reflexivity|]. split; [reflexivity|]. split; [|exact HS].
      unfold d1. rewrite with_P_id. exact Hf. }
  destruct S1 as (k1 & q1 & E1 & Eq1 & F1 & HS1). rewrite E1, Eq1. cbn [bind].
  (* A *)
  assert (S2 : exists k2 q2, (if Nat.testbit mask 1 then update_data_A d3 k1 else Ok k1) = Ok k2 /\
                             (if Nat.testbit mask 1 then update_data_A d3 q1 else Ok q1) = Ok q2 /\ fresh_form d2 c k2 /\ PS d k2 q2).
  { destruct (Nat.testbit mask 1).
    - change (update_data_A d3 k1) with (update_data_A d2 k1). change (update_data_A d3 q1) with (update_data_A d2 q1).
      destruct (update_data_A_fresh d1 Hwf1 c k1 ax F1) as (k2 & E2 & F2); auto.
      destruct (sim_data_A d1 Hwf1 (oPinv o) (colptr Cpos) (rowind Cpos) a2c) with (ax := ax) (kid := k1) (kp := q1) as (kxI & kxP & E2' & Eq2 & HS2); auto;
        try (apply F1); try (unfold d1; apply perm_state_with_P; exact HS1).
      rewrite E2 in E2'. injection E2' as ->. exists (set_kx k1 kxI), (set_kx q1 kxP). split; [exact E2|]. split; [exact Eq2|]. split; [exact F2|]. exact HS2.
    - pose proof (C1 eq_refl) as ->. exists k1, q1. split; [reflexivity|]. split; [reflexivity|]. split; [|exact HS1].
      unfold d2. change (sd_AT d) with (sd_AT d1). rewrite with_AT_id. exact F1. }
  destruct S2 as (k2 & q2 & E2 & Eq2 & F2 & HS2). rewrite E2, Eq2. cbn [bind].
  (* G *)
  assert (S3 : exists k3 q3, (if Nat.testbit mask 2 then update_data_G d3 k2 else Ok k2) = Ok k3 /\
                             (if Nat.testbit mask 2 then update_data_G d3 q2 else Ok q2) = Ok q3 /\ fresh_form d3 c k3 /\ PS d k3 q3).
  { destruct (Nat.testbit mask 2).
    - destruct (update_data_G_fresh d2 Hwf2 c k2 gx F2) as (k3 & E3 & F3); auto.
      destruct (sim_data_G d2 Hwf2 (oPinv o) (colptr Cpos) (rowind Cpos) a2c) with (gx := gx) (kid := k2) (kp := q2) as (kxI & kxP & E3' & Eq3 & HS3); auto;
        try (apply F2); try (unfold d2, d1; apply perm_state_with_AT, perm_state_with_P; exact HS2).
      rewrite E3 in E3'. injection E3' as ->. exists (set_kx k2 kxI), (set_kx q2 kxP). split; [exact E3|]. split; [exact Eq3|]. split; [exact F3|]. exact HS3.
    - pose proof (C2 eq_refl) as ->. exists k2, q2. split; [reflexivity|]. split; [reflexivity|]. split; [|exact HS2].
      unfold d3. change (sd_GT d) with (sd_GT d2). rewrite with_GT_id. exact F2. }
  destruct S3 as (k3 & q3 & E3 & Eq3 & F3 & HS3). rewrite E3, Eq3. cbn [bind].
  exists k3, q3. split; [reflexivity|]. split; [reflexivity|]. split; [exact F3|].
  (* the pattern is the one of kid *)
  pose proof F3 as ((_ & _ & Hst3 & _) & _).
  assert (Hst3' : static_spec d3 (fk_kp kid) (fk_ki kid) (fk_P2K kid) (fk_AT2K kid) (fk_GT2K kid)).
  { unfold d3, d2, d1. apply static_with_GT, static_with_AT, static_with_P. exact Hst. }
  assert (Hwf3 : wf_sdata d3) by (apply wf_with_GT; auto).
  destruct (static_spec_unique d3 Hwf3 _ _ _ _ _ _ _ _ _ _ Hst3 Hst3') as (Ekp & Eki & _).
  unfold perm_img. cbv zeta. rewrite Ekp, Eki. change (sd_n d3 + sd_p d3 + sd_m d3) with (sd_n d + sd_p d + sd_m d).
  exists o, Cpos, a2c. split; [exact Eo|]. split; [exact Eperm|]. split; [exact Hok|].
  unfold d3, d2, d1. apply perm_state_with_GT, perm_state_with_AT, perm_state_with_P. exact HS3.
Qed.
