(* Properties_C04.v -- C04 "An updated solver is equivalent to a freshly set-up solver", clause T5 (model level):
   update(ALL eight blocks, reuse_preconditioner = false) == fresh setup() of the same blocks, for every later call.
   Statements only.  Model: API.v (setup / update / solve of the dense solver object; [sparse_pc] selects the Ruiz code of
   the sparse backend, [ident] the IdentityPreconditioner).  Proofs: UpdateFreshRuizProofs.v (the fresh Ruiz branch forgets
   the old preconditioner), UpdateFreshDataProofs.v (data / preconditioner / A'A after the update), UpdateFreshSolveProofs.v
   (the first solve, observational equality), SolveCallsShiftProofs.v (the call counter of hook H1), UpdateFreshProofs.v
   (assembly, histories), UpdateFreshExamples.v (concrete runs, refuting witnesses).

   Vocabulary
     e2e_inv U sv          the invariant of EndToEndProofs.v: holds after every accepted setup() and is preserved by every
                           accepted update() and every solve()  (so [sv] is ANY state reached by ANY accepted history)
     all_some B            all eight blocks P, c, A, b, G, h, x_lb, x_ub are passed
     RR R r1 r2            both runs fail with the same error, or both succeed with R-related results
     later_eq a b          OBSERVATIONAL EQUALITY for every later call: sv_set, sv_data, sv_pc (all fields), sv_info, sv_out,
                           sv_refine, sv_calls, sv_setup_done are equal, kkt_init_state = false in both, and the KKT objects
                           agree on what survives into the next solve (A'A; rho, delta, s, z_inv; array lengths) -- the
                           matrix, the box-scaling arrays and the LLT state are rebuilt by the next solve before being read
     solve_rel0 u v        later_eq (fst u) (fst v) /\ snd u = snd v     (snd = returned status)
     later_eq_mod / solve_rel_mod c1 c2   the same up to the values of the call counters, which keep their offsets
     carry_info i          the eight info fields solve() does not reset on entry (primal/dual (rel) inf, objectives, gaps)
     init_gives_up K f sv  the initial factorisation loop of solve() on [sv] under fault oracle [f] ends with NUMERICS
                           before the initial point is computed  *)
From PIQP Require Import Base Data Bounds PrecondDense KKTDense IPM API.
From PIQP Require Import PrecondProofs Shapes ShapesProofs ResidSpec EndToEndProofs.
From PIQP Require JunkProofs JunkAPIProofs.
From PIQP Require Import UpdateFreshRuizProofs UpdateFreshDataProofs UpdateFreshSolveProofs SolveCallsShiftProofs
                         UpdateFreshProofs UpdateFreshExamples.
Local Open Scope Qc_scope.

(* ---- (ii) scale_data(reuse = false) forgets the previous preconditioner state, Ruiz (dense and sparse code) and
        Identity; the only reading of the old state -- the sparse code's first loop-guard evaluation -- is dominated by
        ||1 - delta_iter||_inf = 1, PROVIDED the guard threshold is < 1 (refuted otherwise, see below) ---- *)
Theorem C04_ruiz_fresh_forgets_pc :
  forall (K : Consts) (sq : bool) (pc pc' : Precond) (d : Data) (sc : bool) (it : Z),
  sane_consts K -> (sq = true -> k_ruiz_eps K < 1) ->
  wf_data d -> dims_agree pc d -> same_kind pc pc' ->
  ruiz_scale_data K sq pc' d false sc it = ruiz_scale_data K sq pc d false sc it.
Proof. exact ruiz_fresh_forgets_pc. Qed.
Print Assumptions C04_ruiz_fresh_forgets_pc.

Theorem C04_scale_fresh_forgets_pc :
  forall (K : Consts) (spc ident : bool) (pc : Precond) (d : Data) (sc : bool) (it : Z),
  sane_consts K -> (spc = true -> k_ruiz_eps K < 1) ->
  wf_data d -> wf_pc pc d -> PrecondProofs.pc_inverse pc -> pc_ones pc -> pc_ident pc = ident ->
  scale_data K spc pc d false sc it = scale_data K spc (precond_init ident d) d false sc it.
Proof. exact scale_fresh_forgets_pc. Qed.
Print Assumptions C04_scale_fresh_forgets_pc.

(* ---- (i) unscale_data followed by overwriting every block = the data setup() assembles ---- *)
Theorem C04_update_all_overwrites_data :
  forall (K : Consts) (d0 : Data) (P : Mat) (c : Vec) (A : Mat) (b : Vec) (G : Mat) (h lb ub : list ext),
  d_lb_scaling d0 = vconst (d_n d0) 1 -> d_ub_scaling d0 = vconst (d_n d0) 1 ->
  all_steps K (all_blocks P c A b G h lb ub) d0 = fresh_data K (d_n d0) (d_p d0) (d_m d0) P c A b G h lb ub.
Proof. exact all_steps_all_some. Qed.
Print Assumptions C04_update_all_overwrites_data.

(* ---- the theorem (equal call counters: in a history from setup() this means "no solve before the update") ---- *)
Theorem update_all_noreuse_eq_fresh :
  forall (K : Consts) (ident spc : bool) (junk : F),
  sane_consts K -> (spc = true -> k_ruiz_eps K < 1) ->
  forall (U : UserQP) (sv : Solver) (B : Blocks) (sv1 sv2 : Solver),
  e2e_inv U sv -> pc_ident (sv_pc sv) = ident -> sv_setup_done sv = true ->
  all_some B -> blocks_ok (d_n (sv_data sv)) (d_p (sv_data sv)) (d_m (sv_data sv)) B ->
  update K spc sv B false = Ok sv1 ->
  setup K ident spc junk (sv_set sv) (d_n (sv_data sv)) (d_p (sv_data sv)) (d_m (sv_data sv)) B = Ok sv2 ->
  sv_data sv1 = sv_data sv2 /\ sv_pc sv1 = sv_pc sv2 /\ sv_set sv1 = sv_set sv2 /\
  k_ATA (sv_kkt sv1) = k_ATA (sv_kkt sv2) /\
  sv_kkt_init_state sv1 = false /\ sv_kkt_init_state sv2 = true /\
  (forall (fault : nat -> bool) (cp_bits : Z),
     sv_refine sv1 = sv_refine sv2 -> sv_calls sv1 = sv_calls sv2 ->
     (sv_out sv1 = sv_out sv2 /\ carry_info (sv_info sv1) = carry_info (sv_info sv2)) \/
     ((0 < max_iter (sv_set sv2))%Z /\ ~ init_gives_up K fault sv2) ->
     JunkProofs.RR solve_rel0 (solve K junk cp_bits fault sv1) (solve K junk cp_bits fault sv2)).
Proof. exact UpdateFreshProofs.update_all_noreuse_eq_fresh. Qed.
Print Assumptions update_all_noreuse_eq_fresh.

(* ---- the general form: solves may have happened before the update (the counters differ, stale results and stale info are
        present in the updated object); the oracles of hook H1 must announce the same faults from the respective counters on ---- *)
Theorem update_all_noreuse_eq_fresh_any_calls :
  forall (K : Consts) (ident spc : bool) (junk : F),
  sane_consts K -> (spc = true -> k_ruiz_eps K < 1) ->
  forall (U : UserQP) (sv : Solver) (B : Blocks) (sv1 sv2 : Solver),
  e2e_inv U sv -> pc_ident (sv_pc sv) = ident -> sv_setup_done sv = true ->
  all_some B -> blocks_ok (d_n (sv_data sv)) (d_p (sv_data sv)) (d_m (sv_data sv)) B ->
  update K spc sv B false = Ok sv1 ->
  setup K ident spc junk (sv_set sv) (d_n (sv_data sv)) (d_p (sv_data sv)) (d_m (sv_data sv)) B = Ok sv2 ->
  forall (f1 f2 : nat -> bool) (cp_bits : Z),
  sv_refine sv1 = sv_refine sv2 ->
  (forall k : nat, f1 (sv_calls sv1 + k)%nat = f2 (sv_calls sv2 + k)%nat) ->
  (sv_out sv1 = sv_out sv2 /\ carry_info (sv_info sv1) = carry_info (sv_info sv2)) \/
  ((0 < max_iter (sv_set sv2))%Z /\ ~ init_gives_up K f2 sv2) ->
  JunkProofs.RR (solve_rel_mod (sv_calls sv1) (sv_calls sv2)) (solve K junk cp_bits f1 sv1) (solve K junk cp_bits f2 sv2).
Proof. exact UpdateFreshProofs.update_all_noreuse_eq_fresh_any_calls. Qed.
Print Assumptions update_all_noreuse_eq_fresh_any_calls.

(* ---- the same for  setup ; (update | solve)* ; update(all blocks, reuse = false)   vs   setup ---- *)
Theorem update_all_noreuse_eq_fresh_history :
  forall (K : Consts) (ident spc : bool) (junk : F) (cp_bits0 : Z) (S : Settings) (n p m : nat) (B0 : Blocks) (sv0 : Solver)
         (h : list SOp) (sv : Solver) (B : Blocks) (sv1 sv2 : Solver),
  sane_consts K -> (spc = true -> k_ruiz_eps K < 1) ->
  setup_blocks_ok n p m B0 -> setup K ident spc junk S n p m B0 = Ok sv0 ->
  Forall (sop_ok n p m) h -> run_sops K spc junk cp_bits0 sv0 h = Ok sv ->
  all_some B -> blocks_ok n p m B ->
  update K spc sv B false = Ok sv1 -> setup K ident spc junk S n p m B = Ok sv2 ->
  sv_data sv1 = sv_data sv2 /\ sv_pc sv1 = sv_pc sv2 /\ sv_set sv1 = sv_set sv2 /\
  k_ATA (sv_kkt sv1) = k_ATA (sv_kkt sv2) /\
  forall (f1 f2 : nat -> bool) (cp_bits : Z),
    sv_refine sv1 = sv_refine sv2 ->
    (forall k, f1 (sv_calls sv1 + k)%nat = f2 (sv_calls sv2 + k)%nat) ->
    ((sv_out sv1 = sv_out sv2 /\ carry_info (sv_info sv1) = carry_info (sv_info sv2)) \/
     ((0 < max_iter S)%Z /\ ~ init_gives_up K f2 sv2)) ->
    JunkProofs.RR (solve_rel_mod (sv_calls sv1) (sv_calls sv2)) (solve K junk cp_bits f1 sv1) (solve K junk cp_bits f2 sv2).
Proof. exact UpdateFreshProofs.update_all_noreuse_eq_fresh_history. Qed.
Print Assumptions update_all_noreuse_eq_fresh_history.

(* ---- a returned status other than NUMERICS certifies that the initial factorisation did not give up ---- *)
Theorem C04_init_gives_up_numerics :
  forall (K : Consts) (junk : F) (cp_bits : Z) (fault : nat -> bool) (sv sv' : Solver) (stt : Status),
  init_gives_up K fault sv -> solve K junk cp_bits fault sv = Ok (sv', stt) -> stt = NUMERICS.
Proof. exact init_gives_up_numerics. Qed.
Print Assumptions C04_init_gives_up_numerics.

Theorem update_all_noreuse_next_solve_not_numerics :
  forall (K : Consts) (ident spc : bool) (junk : F),
  sane_consts K -> (spc = true -> k_ruiz_eps K < 1) ->
  forall (U : UserQP) (sv : Solver) (B : Blocks) (sv1 sv2 : Solver) (fault : nat -> bool) (cp_bits : Z)
         (sv1' : Solver) (st1 : Status) (sv2' : Solver) (st2 : Status),
  e2e_inv U sv -> pc_ident (sv_pc sv) = ident -> sv_setup_done sv = true ->
  all_some B -> blocks_ok (d_n (sv_data sv)) (d_p (sv_data sv)) (d_m (sv_data sv)) B ->
  update K spc sv B false = Ok sv1 ->
  setup K ident spc junk (sv_set sv) (d_n (sv_data sv)) (d_p (sv_data sv)) (d_m (sv_data sv)) B = Ok sv2 ->
  sv_refine sv1 = sv_refine sv2 -> sv_calls sv1 = sv_calls sv2 ->
  (0 < max_iter (sv_set sv2))%Z -> st2 <> NUMERICS ->
  solve K junk cp_bits fault sv1 = Ok (sv1', st1) -> solve K junk cp_bits fault sv2 = Ok (sv2', st2) ->
  st1 = st2 /\ sv_out sv1' = sv_out sv2' /\ sv_info sv1' = sv_info sv2' /\ later_eq sv1' sv2'.
Proof. exact UpdateFreshProofs.update_all_noreuse_next_solve_not_numerics. Qed.
Print Assumptions update_all_noreuse_next_solve_not_numerics.

(* ---- the abstract core: two solver objects related as "after update(all, no reuse)" / "after setup" ---- *)
Theorem C04_first_solve_eq :
  forall (K : Consts) (junk : F) (cp_bits : Z) (fault : nat -> bool) (sv1 sv2 : Solver),
  fresh_pair junk sv1 sv2 -> sv_refine sv1 = sv_refine sv2 -> sv_calls sv1 = sv_calls sv2 ->
  (sv_out sv1 = sv_out sv2 /\ carry_info (sv_info sv1) = carry_info (sv_info sv2)) \/
  ((0 < max_iter (sv_set sv2))%Z /\ ~ init_gives_up K fault sv2) ->
  JunkProofs.RR solve_rel0 (solve K junk cp_bits fault sv1) (solve K junk cp_bits fault sv2).
Proof. exact first_solve_eq. Qed.
Print Assumptions C04_first_solve_eq.

(* ---- observational equality is preserved by EVERY later call ---- *)
Theorem C04_later_eq_solve :
  forall (K : Consts) (junk : F) (cp_bits : Z) (fault : nat -> bool) (a b : Solver),
  later_eq a b -> JunkAPIProofs.SolveShape a ->
  JunkProofs.RR solve_rel0 (solve K junk cp_bits fault a) (solve K junk cp_bits fault b).
Proof. exact later_eq_solve. Qed.
Print Assumptions C04_later_eq_solve.

Theorem C04_later_eq_update_ok :
  forall (K : Consts) (sq : bool) (a b : Solver) (B : Blocks) (reuse : bool) (a' b' : Solver),
  later_eq a b -> update K sq a B reuse = Ok a' -> update K sq b B reuse = Ok b' -> later_eq a' b'.
Proof. exact later_eq_update_ok. Qed.
Print Assumptions C04_later_eq_update_ok.

Theorem C04_later_eq_mod_solve :
  forall (K : Consts) (junk : F) (cp_bits : Z) (f1 f2 : nat -> bool) (a b : Solver),
  later_eq_mod a b -> JunkAPIProofs.SolveShape a ->
  (forall k : nat, f1 (sv_calls a + k)%nat = f2 (sv_calls b + k)%nat) ->
  JunkProofs.RR (solve_rel_mod (sv_calls a) (sv_calls b)) (solve K junk cp_bits f1 a) (solve K junk cp_bits f2 b).
Proof. exact later_eq_mod_solve. Qed.
Print Assumptions C04_later_eq_mod_solve.

Theorem C04_later_eq_mod_update_ok :
  forall (K : Consts) (sq : bool) (a b : Solver) (B : Blocks) (reuse : bool) (a' b' : Solver),
  later_eq_mod a b -> update K sq a B reuse = Ok a' -> update K sq b B reuse = Ok b' -> later_eq_mod a' b'.
Proof. exact later_eq_mod_update_ok. Qed.
Print Assumptions C04_later_eq_mod_update_ok.

(* what an observer can read off two observationally equal objects *)
Theorem C04_later_eq_mod_obs :
  forall a b : Solver, later_eq_mod a b ->
  sv_set a = sv_set b /\ sv_data a = sv_data b /\ sv_pc a = sv_pc b /\ sv_info a = sv_info b /\ sv_out a = sv_out b /\
  sv_refine a = sv_refine b /\ k_ATA (sv_kkt a) = k_ATA (sv_kkt b).
Proof. exact later_eq_mod_obs. Qed.
Print Assumptions C04_later_eq_mod_obs.

(* ---- the call counter only indexes the fault oracle ---- *)
Theorem C04_solve_calls_shift :
  forall (K : Consts) (junk : F) (cp_bits : Z) (f1 f2 : nat -> bool) (sv : Solver) (c2 : nat),
  (forall k : nat, f1 (sv_calls sv + k)%nat = f2 (c2 + k)%nat) ->
  JunkProofs.RR (fun u v : Solver * Status => snd u = snd v /\ sv_shift (sv_calls sv) c2 (fst u) (fst v))
    (solve K junk cp_bits f1 sv) (solve K junk cp_bits f2 (set_calls c2 sv)).
Proof. exact solve_calls_shift. Qed.
Print Assumptions C04_solve_calls_shift.

(* ---- NON-VACUITY: setup ; solve ; update(all, no reuse) ; solve   ==   setup ; solve   on a concrete problem (sparse Ruiz
        code, cost scaling): every hypothesis of update_all_noreuse_eq_fresh_history holds with stale results and a
        different call counter in the updated object, and the conclusion is read off ---- *)
Example ex_update_all_noreuse_eq_fresh :
  exists sv0 sva sv1 sv2 sv1' sv2' s1 s2,
    setup xK false true 0 xS 1 0 1 e2e_B0 = Ok sv0 /\ run_sops xK true 0 8 sv0 [SSolve nofault] = Ok sva /\
    update xK true sva xB false = Ok sv1 /\ setup xK false true 0 xS 1 0 1 xB = Ok sv2 /\
    solve xK 0 8 nofault sv1 = Ok (sv1', s1) /\ solve xK 0 8 nofault sv2 = Ok (sv2', s2) /\
    sv_refine sv1 = sv_refine sv2 /\ (forall k, nofault (sv_calls sv1 + k)%nat = nofault (sv_calls sv2 + k)%nat) /\
    (0 < max_iter xS)%Z /\ ~ init_gives_up xK nofault sv2 /\
    o_x (sv_out sv1) <> o_x (sv_out sv2) /\ sv_calls sv1 <> sv_calls sv2 /\ pc_c (sv_pc sv1) <> 1 /\
    s1 = s2 /\ s2 <> NUMERICS /\ later_eq_mod sv1' sv2' /\ sv_out sv1' = sv_out sv2' /\ sv_info sv1' = sv_info sv2' /\
    o_x (sv_out sv1') <> [0].
Proof. exact ex_update_all_noreuse_eq_fresh_proof. Qed.
Print Assumptions ex_update_all_noreuse_eq_fresh.

Example ex_hypotheses :
  sane_consts xK /\ (true = true -> k_ruiz_eps xK < 1) /\
  all_some xB /\ blocks_ok 1 0 1 xB /\ setup_blocks_ok 1 0 1 e2e_B0 /\ Forall (sop_ok 1 0 1) [SSolve nofault].
Proof. destruct xK_hyps. destruct xB_hyps as (? & ? & ? & ?). auto 10. Qed.

(* ---- REFUTED without the carry-over hypothesis: oracle "every factorisation fails": both solves return NUMERICS before
        the initial point is computed; the updated object returns the x of the EARLIER solve, the fresh one returns 0 ---- *)
Theorem update_all_noreuse_eq_fresh_stale_results_refuted :
  exists sv0 sva sv1 sv2 sv1' sv2',
    setup xK false true 0 xS 1 0 1 e2e_B0 = Ok sv0 /\ run_sops xK true 0 8 sv0 [SSolve nofault] = Ok sva /\
    update xK true sva xB false = Ok sv1 /\ setup xK false true 0 xS 1 0 1 xB = Ok sv2 /\
    sv_refine sv1 = sv_refine sv2 /\ (forall k, allfault (sv_calls sv1 + k)%nat = allfault (sv_calls sv2 + k)%nat) /\
    (0 < max_iter xS)%Z /\
    solve xK 0 8 allfault sv1 = Ok (sv1', NUMERICS) /\ solve xK 0 8 allfault sv2 = Ok (sv2', NUMERICS) /\
    sv_out sv1' <> sv_out sv2'.
Proof. exact update_all_noreuse_eq_fresh_stale_results_refuted_proof. Qed.
Print Assumptions update_all_noreuse_eq_fresh_stale_results_refuted.

(* ---- REFUTED for a Ruiz loop-guard threshold >= 1 (sparse code): the old inverse scalings decide whether the loop runs ---- *)
Theorem ruiz_fresh_forgets_pc_eps_refuted :
  sane_consts eK /\ ~ (k_ruiz_eps eK < 1) /\ wf_data eD /\ dims_agree ePc eD /\ same_kind ePc ePc' /\
  ruiz_scale_data eK true ePc' eD false false 1 <> ruiz_scale_data eK true ePc eD false false 1.
Proof. exact ruiz_fresh_forgets_pc_eps_refuted_proof. Qed.
Print Assumptions ruiz_fresh_forgets_pc_eps_refuted.
