(* KKTSparseIneq.v -- sparse/kkt_ineq_eliminated.hpp (KKTImpl<.., KKT_INEQ_ELIMINATED>) with the parts of sparse/kkt.hpp that drive
   it (init, update_scalings, update_kkt_box_scalings): the (n + p) x (n + p) matrix
        [ P + rho I + box + G^T (S Z^-1 + delta I)^-1 G     A^T      ]
        [ A                                                 -delta I ]                (upper triangle, permuted).
   State record, shared loops and conventions: KKTSparseEq.v (ek_X = G, ek_XX = GT_W_delta_inv_G, ek_X2K = GT_G_to_Ki,
   ek_R2K = AT_to_Ki).  The weighted scatter product update_GT_W_delta_inv_G is [scatter_product .. (Some (s, z_inv, delta))] of
   KKTSparseAll.v (the same text as in kkt_all_eliminated.hpp). *)
From PIQP Require Import Base CSC KKTSparseFull KKTSparseAll KKTSparseEq.
Local Open Scope Qc_scope.

Definition ineq_N (d : sdata) : nat := (sd_n d + sd_p d)%nat.
Definition ineq_PKPt (d : sdata) (k : ekkt) : csc F := mkcsc (ineq_N d) (ineq_N d) (ek_kp k) (ek_ki k) (ek_kx k).

(* init_workspace: G = GT.transpose(); GT_W_delta_inv_G = (GT * G).triangularView<Upper>() scaled by 1 / (1 + delta);
   tmp_scatter = 0 (G.cols()) *)
Definition ineq_workspace (d : sdata) (delta : F) : res (csc F * csc F * Vec) :=
  do G <- csc_transpose (sd_GT d) ;;
  let tmp := repeat 0 (ncols G) in
  do '(GTG, tmp) <- scatter_product G (sd_GT d) (prod_upper_pattern G (sd_GT d)) None tmp ;;
  do w <- qdiv 1 (1 + delta) ;;
  Ok (G, csc_set_vals GTG (map (fun v => v * w) (vals GTG)), tmp).

(* create_kkt_matrix *)
Definition ineq_kkt (d : sdata) (rho delta : F) (GTG : csc F) : res (csc F * list nat * list nat * list nat) :=
  let TL := tl_sum (sd_n d) (sd_P d) GTG rho None in
  assemble (sd_n d) (ineq_N d) (sd_P d) GTG TL (sd_AT d) (- delta).

Definition ineq_create (d : sdata) (rho delta : F) : res emat :=
  do '(G, GTG, tmp) <- ineq_workspace d delta ;;
  do '(K, p2k, g2k, a2k) <- ineq_kkt d rho delta GTG ;;
  Ok (mkemat K p2k g2k a2k G GTG tmp).

Definition ineq_init (d : sdata) (rho delta : F) (ord : option (list nat)) : res ekkt :=
  do em <- ineq_create d rho delta ;;
  e_finish_init d (ineq_N d) rho delta ord em.

(* update_kkt_equality_scalings: copy AT, then the diagonal -delta of the columns n .. n+p-1 *)
Definition ineq_equality_scalings (d : sdata) (k : ekkt) (kx : Vec) : res Vec :=
  do kx <- scatter_vals (ek_R2K k) (ek_PKi k) (vals (sd_AT d)) (nnz (sd_AT d)) kx ;;
  equality_scalings (ek_pinv k) (ek_kp k) (sd_n d) (sd_p d) (sc_delta (ek_sc k)) kx.

(* update_kkt_inequality_scaling: update_GT_W_delta_inv_G(), then PKPt[PKi(GT_G_to_Ki(k))] += GT_W_delta_inv_G[k] *)
Definition ineq_inequality_scaling (d : sdata) (k : ekkt) (kx : Vec) : res (Vec * csc F * Vec) :=
  let c := ek_sc k in
  do '(GTG, tmp) <- scatter_product (ek_X k) (sd_GT d) (ek_XX k) (Some (sc_s c, sc_z_inv c, sc_delta c)) (ek_tmp k) ;;
  do kx <- add_vals (ek_X2K k) (ek_PKi k) None (vals GTG) (nnz GTG) kx ;;
  Ok (kx, GTG, tmp).

Definition ineq_refresh (d : sdata) (k : ekkt) : res ekkt :=
  do kx <- e_cost_scalings d k ;;
  do kx <- ineq_equality_scalings d k kx ;;
  do '(kx, GTG, tmp) <- ineq_inequality_scaling d k kx ;;
  do kx <- e_box_scalings d k kx ;;
  Ok (ek_set_kx (ek_set_XX k GTG tmp) kx).

Definition ineq_update_scalings (d : sdata) (k : ekkt) (rho delta : F) (s s_lb s_ub z z_lb z_ub : Vec) : res ekkt :=
  do c <- e_new_scal d (ek_sc k) rho delta s s_lb s_ub z z_lb z_ub ;;
  ineq_refresh d (ek_set_sc k c).

(* update_data(options): KKT_UPDATE_G = 4 re-transposes the cached G (the product is recomputed by every refresh anyway) *)
Definition ineq_update_data (d : sdata) (k : ekkt) (options : nat) : res ekkt :=
  do k <- (if Nat.testbit options 2 then
             do G <- transpose_no_alloc (sd_GT d) (ek_X k) ;; Ok (ek_set_X k G)
           else Ok k) ;;
  if (options =? 0)%nat then Ok k else ineq_refresh d k.
