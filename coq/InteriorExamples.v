(* InteriorExamples.v -- concrete instances for the non-vacuity examples of Properties_C08_interior.v
   (definitions are evaluated with vm_compute from API.setup / init_factor, constants from gen/Consts.v) *)
From Coq Require Import Lqa Lia.
From PIQP Require Import Base Data Bounds PrecondDense KKTDense IPM InteriorProofs.
From RecordUpdate Require Import RecordSet.
Import RecordSetNotations.
Local Open Scope Qc_scope.

From PIQP Require Import API.   (* only [Blocks] and [setup] are used *)
From PIQP.gen Require Import Consts.

Definition unres {A} (dflt : A) (r : res A) : A := match r with Ok a => a | Err _ => dflt end.

(* minimise x^2 + x  s.t.  x <= 1,  -3 <= x   (n = 1, m = 1, one lower bound) *)
Definition ex_blocks : Blocks :=
  {| b_P := Some [[qmk 2 1]]; b_c := Some [qmk 1 1]; b_A := None; b_b := None; b_G := Some [[qmk 1 1]];
     b_h := Some [Fin (qmk 1 1)]; b_lb := Some [Fin (qmk (-3) 1)]; b_ub := Some [PInf] |}.
Definition ex_cp : F -> F := round_cp 16.
(* short dyadic settings keep the exact rationals of the example small *)
Definition ex_settings : Settings := {|
  rho_init := qmk 1 64; delta_init := qmk 1 16;
  eps_abs := qmk 1 1024; eps_rel := qmk 1 1024;
  check_duality_gap := true; eps_duality_gap_abs := qmk 1 1024; eps_duality_gap_rel := qmk 1 1024;
  reg_lower_limit := qmk 1 1048576; reg_finetune_lower_limit := qmk 1 1073741824;
  reg_finetune_primal_update_threshold := 7; reg_finetune_dual_update_threshold := 5;
  max_iter := 250; max_factor_retires := 10;
  preconditioner_scale_cost := false; preconditioner_iter := 10;
  tau := qmk 3 4;
  iterative_refinement_always_enabled := false;
  iterative_refinement_eps_abs := qmk 1 4096; iterative_refinement_eps_rel := qmk 1 4096;
  iterative_refinement_max_iter := 10;
  iterative_refinement_min_improvement_rate := qmk 5 1;
  iterative_refinement_static_regularization_eps := qmk 1 8192;
  iterative_refinement_static_regularization_rel := qmk 1 1048576
|}.
Definition ex_fault : nat -> bool := fun _ => false.
Definition ex_sv_res : res Solver := setup consts true false 0 ex_settings 1 0 1 ex_blocks.
Definition ex_dummy_d : Data :=
  {| d_n := 0; d_p := 0; d_m := 0; d_P := []; d_AT := []; d_GT := []; d_c := []; d_b := []; d_h := [];
     d_lb_idx := []; d_ub_idx := []; d_lb_scaling := []; d_ub_scaling := []; d_lb_n := []; d_ub := [] |}.
Definition ex_dummy_k : KKT :=
  {| k_rho := 0; k_delta := 0; k_s := []; k_s_lb := []; k_s_ub := []; k_z_inv := []; k_z_lb_inv := [];
     k_z_ub_inv := []; k_mat := []; k_ATA := []; k_fact := None |}.
(* scaled data, preconditioner and KKT object as left by setup() *)
Definition ex_d : Data := Eval vm_compute in match ex_sv_res with Ok sv => sv_data sv | Err _ => ex_dummy_d end.
Definition ex_pc : Precond := Eval vm_compute in match ex_sv_res with Ok sv => sv_pc sv | Err _ => precond_init true ex_dummy_d end.
Definition ex_k0 : KKT := Eval vm_compute in match ex_sv_res with Ok sv => sv_kkt sv | Err _ => ex_dummy_k end.

(* the state at the call of initial_point, as solve() builds it: info counters reset, slacks and multipliers of the
   entry iterate set to 1, initial factorisation done *)
Definition ex_inf0 : Info :=
  {| i_status := UNSOLVED; i_iter := 0; i_rho := rho_init ex_settings; i_delta := delta_init ex_settings; i_mu := 0;
     i_sigma := 0; i_primal_step := 0; i_dual_step := 0; i_primal_inf := 0; i_primal_rel_inf := 0; i_dual_inf := 0;
     i_dual_rel_inf := 0; i_primal_obj := 0; i_dual_obj := 0; i_duality_gap := 0; i_duality_gap_rel := 0;
     i_factor_retires := 0; i_reg_limit := reg_lower_limit ex_settings; i_no_primal_update := 0; i_no_dual_update := 0 |}.
Definition ex_it0 : Iterate :=
  {| x := vconst (d_n ex_d) 0; y := vconst (d_p ex_d) 0; z := vconst (d_m ex_d) 1;
     z_lb := vconst (d_nlb ex_d) 1; z_ub := vconst (d_nub ex_d) 1;
     s := vconst (d_m ex_d) 1; s_lb := vconst (d_nlb ex_d) 1; s_ub := vconst (d_nub ex_d) 1;
     zeta := vconst (d_n ex_d) 0; lambda := vconst (d_p ex_d) 0; nu := vconst (d_m ex_d) 0;
     nu_lb := vconst (d_nlb ex_d) 0; nu_ub := vconst (d_nub ex_d) 0 |}.
Definition ex_st0 : St :=
  {| st_it := ex_it0; st_inf := ex_inf0; st_kkt := ex_k0; st_refine := false;
     st_res := {| rx_nr := []; ry_nr := []; rz_nr := []; rz_lb_nr := []; rz_ub_nr := [] |}; st_calls := 0 |}.
Definition ex_st_res : res St :=
  do '(st2, ok) <- init_factor consts ex_settings ex_d ex_fault (init_fuel ex_settings) ex_st0 ;;
  Ok (st2 <| st_inf := (st_inf st2) <| i_factor_retires := 0%Z |> |>).
Definition ex_st : St := Eval vm_compute in match ex_st_res with Ok st => st | Err _ => ex_st0 end.

Ltac qc_cmp := vm_compute; reflexivity.

Example ex_consts_ok :
  1 < k_shift consts /\ 0 < k_half consts /\ 0 < k_sinit consts /\ 0 <= k_snorm consts /\ 0 < k_eps consts /\
  0 < k_retry_mul consts /\ 0 < k_reglim_mul consts /\ 0 < tau ex_settings /\ tau ex_settings < 1 /\
  0 < reg_finetune_lower_limit ex_settings /\ 0 < eps_abs ex_settings /\ 0 < reg_lower_limit ex_settings.
Proof. repeat split; try qc_cmp; vm_compute; discriminate. Qed.

Example ex_shapes_ok :
  DataShape ex_d /\ KShape ex_d (st_kkt ex_st) /\ KSign ex_d (st_kkt ex_st) /\ InfPos (st_inf ex_st) /\
  i_iter (st_inf ex_st) = 0%Z /\ (0 < nineq ex_d)%nat.
Proof.
  split; [constructor; vm_compute; auto|].
  split; [unfold KShape; vm_compute; repeat split; auto|].
  split; [unfold KSign; vm_compute; repeat constructor|].
  split; [unfold InfPos; repeat split; qc_cmp|].
  split; [reflexivity|vm_compute; auto].
Qed.

Example ex_setup_is_real : (d_n ex_d, d_m ex_d, d_nlb ex_d, d_nub ex_d) = (1, 1, 1, 0)%nat /\ k_fact (st_kkt ex_st) <> None.
Proof. split; [reflexivity|discriminate]. Qed.

(* E is not vacuous: all hypotheses hold on the instance, the initial point exists and is interior *)
Example ex_initial_point :
  exists st', initial_point consts ex_settings ex_d ex_cp ex_st = Ok st' /\ Interior ex_d st'.
Proof.
  destruct ex_consts_ok as (C1 & C2 & C3 & C4 & _).
  destruct ex_shapes_ok as (H1 & H2 & H3 & H4 & H5 & _).
  destruct (init_solve ex_settings ex_d ex_st) as [stp|] eqn:E; [|vm_compute in E; discriminate E].
  exact (initial_point_interior consts ex_settings ex_d ex_cp (round_cp_sign 16) C1 C2 C3 C4 H1 ex_st stp H2 H3 H4 H5 E).
Qed.

Definition ex_st1 : St := Eval vm_compute in unres ex_st (initial_point consts ex_settings ex_d ex_cp ex_st).
Example ex_st1_is_initial_point : initial_point consts ex_settings ex_d ex_cp ex_st = Ok ex_st1.
Proof. vm_compute. reflexivity. Qed.
(* the multipliers of the solved step are negative (z = -s slot by slot): the Mehrotra shift is exercised *)
Example ex_shift_exercised :
  exists p, init_solve ex_settings ex_d ex_st = Ok p /\
            nth 0 (st_z p) 0 < 0 /\ nth 0 (st_z_lb p) 0 < 0 /\ nth 0 (st_s p) 0 = - nth 0 (st_z p) 0.
Proof.
  destruct (init_solve ex_settings ex_d ex_st) as [p|] eqn:E; [|vm_compute in E; discriminate E].
  exists p. split; [reflexivity|]. vm_compute in E. injection E as <-. repeat split; vm_compute; try reflexivity.
Qed.

(* L is not vacuous: a pass of the loop from the interior initial point continues with a new iterate *)
Definition ex_o1 : res Outcome := Eval vm_compute in loop_pass consts ex_settings ex_d ex_pc ex_fault ex_cp ex_st1.
Definition ex_st2 : St := match ex_o1 with Ok (Continue st) => st | _ => ex_st1 end.
Example ex_loop_pass_eq : loop_pass consts ex_settings ex_d ex_pc ex_fault ex_cp ex_st1 = Ok (Continue ex_st2).
Proof. vm_compute. reflexivity. Qed.
Example ex_loop_pass_moves :
  qeqb (nth 0 (s (st_it ex_st2)) 0) (nth 0 (s (st_it ex_st1)) 0) = false /\
  qeqb (nth 0 (z_lb (st_it ex_st2)) 0) (nth 0 (z_lb (st_it ex_st1)) 0) = false /\
  i_iter (st_inf ex_st2) = 1%Z.
Proof. repeat split; vm_compute; reflexivity. Qed.
Example ex_loop_pass_interior : Interior ex_d ex_st1 /\ Interior ex_d ex_st2.
Proof.
  destruct ex_consts_ok as (C1 & C2 & C3 & C4 & C5 & C6 & C7 & C8 & C9 & C10 & C11 & _).
  destruct ex_shapes_ok as (H1 & H2 & H3 & H4 & H5 & _).
  pose proof (initial_point_ok_interior consts ex_settings ex_d ex_cp (round_cp_sign 16) C1 C2 C3 C4 H1
                  ex_st ex_st1 H2 H3 H4 H5 ex_st1_is_initial_point) as HI.
  split; [exact HI|].
  exact (loop_invariant consts ex_settings ex_d ex_pc ex_fault ex_cp (round_cp_cp_pos 16) C8 C9 C10 C11 C5 C6 C7
             ex_st1 _ H1 HI ex_loop_pass_eq).
Qed.
Example ex_settings_accepted : verify_settings ex_settings = true.
Proof. vm_compute. reflexivity. Qed.

(* F: a step that would leave the orthant is cut back; with tau = 3/4 the new point keeps (1 - tau) of the old one *)
Example ex_fraction_to_boundary :
  (exists a, ratio_min 1 [qmk 1 1; qmk 2 1] [qmk (-4) 1; qmk 1 1] = Ok a /\ this a = (1 # 4)%Q) /\
  map this (vadd [qmk 1 1; qmk 2 1] (vscale (qmk 1 4 * qmk 3 4) [qmk (-4) 1; qmk 1 1])) = [(1 # 4)%Q; (35 # 16)%Q].
Proof. split; [eexists; split|]; vm_compute; reflexivity. Qed.
(* C: rounding to 4 significant bits towards -infinity keeps the sign *)
Example ex_round_cp :
  this (round_cp 4 (qmk 1 3)) = (5 # 16)%Q /\ this (round_cp 4 (qmk (-1) 3)) = (-11 # 32)%Q /\ this (round_cp 4 0) = 0%Q.
Proof. repeat split; vm_compute; reflexivity. Qed.
(* B: an entry below eps triggers the shift of its block, the other blocks stay *)
Example ex_boundary_shift :
  let it := st_it ex_st1 <| z := [k_eps consts * qmk 1 2] |> in
  map this (z (boundary_shift consts it)) = map this [k_eps consts * qmk 3 2] /\
  map this (z_lb (boundary_shift consts it)) = map this (z_lb it).
Proof. split; vm_compute; reflexivity. Qed.
(* the degenerate input of the Mehrotra shift: s = (1,0), z = (0,1) has tmp_prod = 0, both divisions succeed with
   quotient 0 and the shifted s keeps its 0.  It is not reachable from initial_point: slack recovery with rhs_s = 0
   gives s_i = -w_i z_i, which excludes s_1 = 1, z_1 = 0. *)
Example ex_mehrotra_degenerate :
  let a := [qmk 1 1; qmk 0 1] in let a' := [qmk 0 1; qmk 1 1] in
  let ds := delta3 (k_shift consts) a [] [] in let dz := delta3 (k_shift consts) a' [] [] in
  let tp := dot (vaddc ds a) (vaddc dz a') + dot (vaddc ds []) (vaddc dz []) + dot (vaddc ds []) (vaddc dz []) in
  this tp = 0%Q /\
  (exists q, qdiv (k_half consts * tp) (vsum a' + vsum [] + vsum [] + qofnat 2 * dz) = Ok q /\
             map this (vaddc (ds + q) a) = [1%Q; 0%Q]).
Proof. split; [|eexists; split]; vm_compute; reflexivity. Qed.
