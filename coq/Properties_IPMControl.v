(* Properties_IPMControl.v -- control-flow properties of PIQP's interior-point loop (solver.hpp, solve_impl),
   proved about the executable model IPM.v for ALL problem data, ALL failure oracles [fault] (hook H1),
   ALL checkpoint functions [cp] (hook H2) and all settings accepted by verify_settings.
   Helper predicates (early_stop, pass_factorisation, success_step, refine_on_step, retry_step, numerics_stop,
   init_result, shift_it, bshift, reg_limit_at_factor, finetune_fires) are defined in IPMControlProofs.v;
   the theorems named [..._unfold] below spell each of them out. *)
From PIQP Require Import Base Data Bounds PrecondDense KKTDense IPM API IPMControlProofs.
From PIQP.gen Require Import Consts.
From RecordUpdate Require Import RecordSet.
Import RecordSetNotations.
Local Open Scope Qc_scope.

(* ------------------------------------------------------------------------------------------------ *)
(* T1  termination / fuel sufficiency                                                                *)
(* ------------------------------------------------------------------------------------------------ *)

Theorem T1_main_loop_terminates :
  forall K S d pc fault cp st,
    verify_settings S = true ->
    (0 <= i_iter (st_inf st) <= max_iter S)%Z ->
    (0 <= i_factor_retires (st_inf st) <= max_factor_retires S)%Z ->
    main_loop K S d pc fault cp (loop_fuel S) st <> Err Fuel.
Proof. exact (fun K S d pc fault cp st _ H1 H2 => main_loop_terminates K S d pc fault cp st (conj H1 H2)). Qed.
Print Assumptions T1_main_loop_terminates.

(* the measure: Phi = (max_iter - iter) * (R + 1) + (R - factor_retires) strictly decreases on every Continue,
   the invariant is kept, and any fuel above Phi suffices *)
Theorem T1_measure_decreases :
  forall K S d pc fault cp st st',
    (0 <= i_iter (st_inf st) <= max_iter S)%Z ->
    (0 <= i_factor_retires (st_inf st) <= max_factor_retires S)%Z ->
    (i_iter (st_inf st) < max_iter S)%Z ->
    loop_pass K S d pc fault cp st = Ok (Continue st') ->
    ((0 <= i_iter (st_inf st') <= max_iter S)%Z /\
     (0 <= i_factor_retires (st_inf st') <= max_factor_retires S)%Z) /\
    ((max_iter S - i_iter (st_inf st')) * (max_factor_retires S + 1)
       + (max_factor_retires S - i_factor_retires (st_inf st'))
     < (max_iter S - i_iter (st_inf st)) * (max_factor_retires S + 1)
       + (max_factor_retires S - i_factor_retires (st_inf st)))%Z /\
    st_calls st' = Datatypes.S (st_calls st) /\
    i_status (st_inf st') = i_status (st_inf st).
Proof. exact (fun K S d pc fault cp st st' H1 H2 => pass_continue K S d pc fault cp st st' (conj H1 H2)). Qed.
Print Assumptions T1_measure_decreases.

Theorem T1_main_loop_any_fuel_above_measure :
  forall K S d pc fault cp f st,
    (0 <= i_iter (st_inf st) <= max_iter S)%Z ->
    (0 <= i_factor_retires (st_inf st) <= max_factor_retires S)%Z ->
    ((max_iter S - i_iter (st_inf st)) * (max_factor_retires S + 1)
       + (max_factor_retires S - i_factor_retires (st_inf st)) < Z.of_nat f)%Z ->
    main_loop K S d pc fault cp f st <> Err Fuel.
Proof. exact (fun K S d pc fault cp f st H1 H2 => main_loop_fuel_enough K S d pc fault cp f st (conj H1 H2)). Qed.
Print Assumptions T1_main_loop_any_fuel_above_measure.

Theorem T1_loop_pass_never_fuel :
  forall K S d pc fault cp st, loop_pass K S d pc fault cp st <> Err Fuel.
Proof. exact NF_loop_pass. Qed.
Print Assumptions T1_loop_pass_never_fuel.

Theorem T1_init_factor_terminates :
  forall K S d fault st,
    verify_settings S = true ->
    (0 <= i_factor_retires (st_inf st) <= max_factor_retires S)%Z ->
    init_factor K S d fault (init_fuel S) st <> Err Fuel.
Proof. exact (fun K S d fault st _ H => init_factor_terminates K S d fault st H). Qed.
Print Assumptions T1_init_factor_terminates.

(* end to end: the whole solve() of API.v (init loop, initial point, main loop with the fuel bounds of IPM.v) *)
Theorem T1_solve_never_out_of_fuel :
  forall K junk cp_bits fault sv,
    verify_settings (sv_set sv) = true -> solve K junk cp_bits fault sv <> Err Fuel.
Proof. exact solve_never_out_of_fuel. Qed.
Print Assumptions T1_solve_never_out_of_fuel.

(* ------------------------------------------------------------------------------------------------ *)
(* T2  status and iteration bound                                                                    *)
(* ------------------------------------------------------------------------------------------------ *)

Theorem T2_main_loop_status_and_bounds :
  forall K S d pc fault cp f st st',
    verify_settings S = true ->
    (0 <= i_iter (st_inf st) <= max_iter S)%Z ->
    (0 <= i_factor_retires (st_inf st) <= max_factor_retires S)%Z ->
    main_loop K S d pc fault cp f st = Ok st' ->
    ((0 <= i_iter (st_inf st') <= max_iter S)%Z /\
     (0 <= i_factor_retires (st_inf st') <= max_factor_retires S)%Z) /\
    (i_status (st_inf st') = SOLVED \/ i_status (st_inf st') = MAX_ITER_REACHED \/
     i_status (st_inf st') = PRIMAL_INFEASIBLE \/ i_status (st_inf st') = DUAL_INFEASIBLE \/
     i_status (st_inf st') = NUMERICS) /\
    (i_status (st_inf st') = MAX_ITER_REACHED -> i_iter (st_inf st') = max_iter S) /\
    (i_status (st_inf st') = SOLVED \/ i_status (st_inf st') = PRIMAL_INFEASIBLE \/
     i_status (st_inf st') = DUAL_INFEASIBLE -> (i_iter (st_inf st') < max_iter S)%Z) /\
    (i_status (st_inf st') = NUMERICS ->
       st_refine st' = true /\ i_factor_retires (st_inf st') = max_factor_retires S) /\
    (st_calls st <= st_calls st')%nat /\
    (Z.of_nat (st_calls st') <=
       Z.of_nat (st_calls st) + ((max_iter S - i_iter (st_inf st)) * (max_factor_retires S + 1)
                                 + (max_factor_retires S - i_factor_retires (st_inf st))))%Z.
Proof.
  exact (fun K S d pc fault cp f st st' _ H1 H2 H =>
           proj1 (main_loop_result K S d pc fault cp f st st' (conj H1 H2) H)).
Qed.
Print Assumptions T2_main_loop_status_and_bounds.

Theorem T2_solve_status_and_bounds :
  forall K junk cp_bits fault sv sv' stt,
    verify_settings (sv_set sv) = true ->
    solve K junk cp_bits fault sv = Ok (sv', stt) ->
    let M := max_iter (sv_set sv) in let R := max_factor_retires (sv_set sv) in
    i_status (sv_info sv') = stt /\
    (stt = SOLVED \/ stt = MAX_ITER_REACHED \/ stt = PRIMAL_INFEASIBLE \/ stt = DUAL_INFEASIBLE \/ stt = NUMERICS) /\
    (0 <= i_iter (sv_info sv') <= M)%Z /\
    (0 <= i_factor_retires (sv_info sv') <= R)%Z /\
    (stt = MAX_ITER_REACHED -> i_iter (sv_info sv') = M) /\
    (stt = NUMERICS -> sv_refine sv' = true /\ i_factor_retires (sv_info sv') = R) /\
    (Z.of_nat (sv_calls sv) <= Z.of_nat (sv_calls sv')
       <= Z.of_nat (sv_calls sv) + (R + 2) + (M * (R + 1) + R))%Z.
Proof. exact solve_result. Qed.
Print Assumptions T2_solve_status_and_bounds.

(* ------------------------------------------------------------------------------------------------ *)
(* T3  the factorisation retry protocol                                                              *)
(* ------------------------------------------------------------------------------------------------ *)

(* complete case analysis of one pass of the main loop *)
Theorem T3_loop_pass_protocol :
  forall K S d pc fault cp st o,
    loop_pass K S d pc fault cp st = Ok o ->
    (exists st', o = Stop st' /\ early_stop st st') \/
    (exists kk ok st',
       pass_factorisation K S d fault st kk ok /\
       st_calls st' = Datatypes.S (st_calls st) /\ st_kkt st' = kk /\
       (ok = true -> o = Continue st' /\ success_step st st') /\
       (ok = false -> st_refine st = false -> o = Continue st' /\ refine_on_step K S st st') /\
       (ok = false -> st_refine st = true -> (i_factor_retires (st_inf st) < max_factor_retires S)%Z ->
          o = Continue st' /\ retry_step K S st st') /\
       (ok = false -> st_refine st = true -> (max_factor_retires S <= i_factor_retires (st_inf st))%Z ->
          o = Stop st' /\ numerics_stop K st st')).
Proof. exact loop_pass_protocol. Qed.
Print Assumptions T3_loop_pass_protocol.

(* the same when hook H1 forces the failure of this pass's factorisation call *)
Theorem T3_forced_failure :
  forall K S d pc fault cp st o,
    fault (st_calls st) = true ->
    loop_pass K S d pc fault cp st = Ok o ->
    (exists st', o = Stop st' /\ early_stop st st') \/
    (exists st', st_calls st' = Datatypes.S (st_calls st) /\
       ((st_refine st = false /\ o = Continue st' /\ refine_on_step K S st st') \/
        (st_refine st = true /\ (i_factor_retires (st_inf st) < max_factor_retires S)%Z /\
         o = Continue st' /\ retry_step K S st st') \/
        (st_refine st = true /\ (max_factor_retires S <= i_factor_retires (st_inf st))%Z /\
         o = Stop st' /\ numerics_stop K st st'))).
Proof. exact forced_failure_pass. Qed.
Print Assumptions T3_forced_failure.

(* NUMERICS is produced nowhere else; Continue never changes the status *)
Theorem T3_numerics_only_after_exhausted_retries :
  forall K S d pc fault cp st o,
    loop_pass K S d pc fault cp st = Ok o ->
    match o with
    | Continue st' => i_status (st_inf st') = i_status (st_inf st)
    | Stop st' =>
        i_status (st_inf st') = NUMERICS ->
        st_refine st = true /\ (max_factor_retires S <= i_factor_retires (st_inf st))%Z /\
        (exists kk, pass_factorisation K S d fault st kk false) /\ numerics_stop K st st'
    end.
Proof. exact numerics_only. Qed.
Print Assumptions T3_numerics_only_after_exhausted_retries.

(* clause "reg_limit = min(k_reglim_mul * reg_limit, eps_abs)" of the retry step.
   As stated (with the reg_limit at the start of the pass) it is FALSE in general: the regularisation
   fine-tuning switch of the same pass may first replace reg_limit by reg_finetune_lower_limit
   (see Example T3_reg_limit_clause_fails_as_stated).  retry_step (T3_loop_pass_protocol) proves the
   exact value  qmin (k_reglim_mul * reg_limit_at_factor S inf) eps_abs ; the clause as stated holds
   whenever the switch does not fire: *)
Theorem T3_retry_reg_limit_partial :
  forall K S st st',
    retry_step K S st st' -> finetune_fires S (st_inf st) = false ->
    i_reg_limit (st_inf st') = qmin (k_reglim_mul K * i_reg_limit (st_inf st)) (eps_abs S).
Proof. exact retry_reg_limit_as_stated. Qed.
Print Assumptions T3_retry_reg_limit_partial.

(* the initial factorisation loop: one unrolling ... *)
Theorem T3_init_factor_protocol :
  forall K S d fault f st r,
    init_factor K S d fault (Datatypes.S f) st = Ok r ->
    exists kk ok,
      regularize_and_factorize S d (st_kkt st) (st_refine st) (fault (st_calls st)) = Ok (kk, ok) /\
      let st1 := st <| st_kkt := kk |> <| st_calls := Datatypes.S (st_calls st) |> in
      (ok = true -> r = (st1, true)) /\
      (ok = false -> st_refine st = false -> init_factor K S d fault f (st1 <| st_refine := true |>) = Ok r) /\
      (ok = false -> st_refine st = true -> (i_factor_retires (st_inf st) < max_factor_retires S)%Z ->
         exists k2,
           kkt_update_scalings d kk (i_rho (st_inf st) * k_retry_mul K) (i_delta (st_inf st) * k_retry_mul K)
             (s (st_it st)) (s_lb (st_it st)) (s_ub (st_it st)) (z (st_it st)) (z_lb (st_it st)) (z_ub (st_it st))
           = Ok k2 /\
           init_factor K S d fault f (st1 <| st_inf := bump_reg K S (st_inf st) |> <| st_kkt := k2 |>) = Ok r) /\
      (ok = false -> st_refine st = true -> (max_factor_retires S <= i_factor_retires (st_inf st))%Z ->
         r = (st1 <| st_inf := (st_inf st) <| i_status := NUMERICS |> |>, false)).
Proof. exact init_factor_protocol. Qed.
Print Assumptions T3_init_factor_protocol.

(* ... and as a whole *)
Theorem T3_init_factor_result :
  forall K S d fault f st st' ok,
    init_factor K S d fault f st = Ok (st', ok) -> init_result K S st st' ok.
Proof. exact init_factor_result. Qed.
Print Assumptions T3_init_factor_result.

(* ------------------------------------------------------------------------------------------------ *)
(* T4  a pass that does not end in a successful factorisation does not move the iterate             *)
(* ------------------------------------------------------------------------------------------------ *)

Theorem T4_failed_pass_iterate :
  forall K S d pc fault cp st o,
    loop_pass K S d pc fault cp st = Ok o ->
    (exists st', o = Stop st' /\ st_it st' = st_it st /\
                 (i_status (st_inf st') = SOLVED \/ i_status (st_inf st') = PRIMAL_INFEASIBLE \/
                  i_status (st_inf st') = DUAL_INFEASIBLE)) \/
    (exists kk st', pass_factorisation K S d fault st kk false /\ (o = Continue st' \/ o = Stop st') /\
                    st_it st' = shift_it K (st_it st)) \/
    (exists kk st', pass_factorisation K S d fault st kk true /\ o = Continue st').
Proof. exact failed_pass_iterate. Qed.
Print Assumptions T4_failed_pass_iterate.

Theorem T4_shift_it_fields :
  forall K it,
    x (shift_it K it) = x it /\ y (shift_it K it) = y it /\ s (shift_it K it) = s it /\
    s_lb (shift_it K it) = s_lb it /\ s_ub (shift_it K it) = s_ub it /\ zeta (shift_it K it) = zeta it /\
    lambda (shift_it K it) = lambda it /\ nu (shift_it K it) = nu it /\ nu_lb (shift_it K it) = nu_lb it /\
    nu_ub (shift_it K it) = nu_ub it /\
    z (shift_it K it) = bshift K (z it) /\ z_lb (shift_it K it) = bshift K (z_lb it) /\
    z_ub (shift_it K it) = bshift K (z_ub it).
Proof. exact shift_it_fields. Qed.
Print Assumptions T4_shift_it_fields.

Theorem T4_bshift_unfold :
  forall K v,
    bshift K v =
    if match v with [] => false | h :: t => qltb (fold_left qmin t h) (k_eps K) end
    then vaddc (k_eps K) v else v.
Proof. exact (fun K v => eq_refl). Qed.
Print Assumptions T4_bshift_unfold.

(* ------------------------------------------------------------------------------------------------ *)
(* T5  factorisation-call accounting                                                                 *)
(* ------------------------------------------------------------------------------------------------ *)

Theorem T5_do_factorize_consumes_one_index :
  forall S d fault st st' ok,
    do_factorize S d fault st = Ok (st', ok) ->
    st_calls st' = Datatypes.S (st_calls st) /\
    st_it st' = st_it st /\ st_inf st' = st_inf st /\ st_refine st' = st_refine st /\ st_res st' = st_res st.
Proof. exact do_factorize_calls. Qed.
Print Assumptions T5_do_factorize_consumes_one_index.

Theorem T5_do_factorize_oracle_local :
  forall S d fault fault' st,
    fault' (st_calls st) = fault (st_calls st) ->
    do_factorize S d fault' st = do_factorize S d fault st.
Proof. exact do_factorize_oracle_local. Qed.
Print Assumptions T5_do_factorize_oracle_local.

Theorem T5_main_loop_calls_at_most_fuel :
  forall K S d pc fault cp st st',
    main_loop K S d pc fault cp (loop_fuel S) st = Ok st' ->
    (st_calls st <= st_calls st' <= st_calls st + loop_fuel S)%nat.
Proof. exact (fun K S d pc fault cp st st' => main_loop_calls_le_fuel K S d pc fault cp (loop_fuel S) st st'). Qed.
Print Assumptions T5_main_loop_calls_at_most_fuel.

(* ------------------------------------------------------------------------------------------------ *)
(* the helper predicates, spelled out                                                                *)
(* ------------------------------------------------------------------------------------------------ *)

Theorem early_stop_unfold :
  forall st st',
    early_stop st st' <->
    (st_it st' = st_it st /\ st_refine st' = st_refine st /\ st_calls st' = st_calls st /\
     st_kkt st' = st_kkt st /\
     (i_status (st_inf st') = SOLVED \/ i_status (st_inf st') = PRIMAL_INFEASIBLE \/
      i_status (st_inf st') = DUAL_INFEASIBLE) /\
     i_iter (st_inf st') = i_iter (st_inf st) /\ i_factor_retires (st_inf st') = i_factor_retires (st_inf st) /\
     i_rho (st_inf st') = i_rho (st_inf st) /\ i_delta (st_inf st') = i_delta (st_inf st) /\
     i_reg_limit (st_inf st') = i_reg_limit (st_inf st)).
Proof. exact (fun st st' => iff_refl _). Qed.
Print Assumptions early_stop_unfold.

(* "the pass started in st reaches regularize_and_factorize (call index st_calls st), which returns ok and kk";
   st4 is the state after boundary control, fine-tuning switch and update_scalings *)
Theorem pass_factorisation_unfold :
  forall K S d fault st kk ok,
    pass_factorisation K S d fault st kk ok <->
    (exists st4,
       (st_it st4 = shift_it K (st_it st) /\ st_refine st4 = st_refine st /\ st_calls st4 = st_calls st /\
        i_status (st_inf st4) = i_status (st_inf st) /\ i_iter (st_inf st4) = (i_iter (st_inf st) + 1)%Z /\
        i_factor_retires (st_inf st4) = i_factor_retires (st_inf st) /\
        i_rho (st_inf st4) = i_rho (st_inf st) /\ i_delta (st_inf st4) = i_delta (st_inf st) /\
        i_reg_limit (st_inf st4) = reg_limit_at_factor S (st_inf st)) /\
       regularize_and_factorize S d (st_kkt st4) (st_refine st) (fault (st_calls st)) = Ok (kk, ok)).
Proof. exact (fun K S d fault st kk ok => iff_refl _). Qed.
Print Assumptions pass_factorisation_unfold.

Theorem success_step_unfold :
  forall st st',
    success_step st st' <->
    (st_refine st' = st_refine st /\ i_status (st_inf st') = i_status (st_inf st) /\
     i_iter (st_inf st') = (i_iter (st_inf st) + 1)%Z /\ i_factor_retires (st_inf st') = 0%Z).
Proof. exact (fun st st' => iff_refl _). Qed.
Print Assumptions success_step_unfold.

Theorem refine_on_step_unfold :
  forall K S st st',
    refine_on_step K S st st' <->
    (st_it st' = shift_it K (st_it st) /\
     st_refine st' = true /\ i_status (st_inf st') = i_status (st_inf st) /\
     i_iter (st_inf st') = (i_iter (st_inf st) + 1)%Z /\
     i_factor_retires (st_inf st') = i_factor_retires (st_inf st) /\
     i_rho (st_inf st') = i_rho (st_inf st) /\ i_delta (st_inf st') = i_delta (st_inf st) /\
     i_reg_limit (st_inf st') = reg_limit_at_factor S (st_inf st)).
Proof. exact (fun K S st st' => iff_refl _). Qed.
Print Assumptions refine_on_step_unfold.

Theorem retry_step_unfold :
  forall K S st st',
    retry_step K S st st' <->
    (st_it st' = shift_it K (st_it st) /\
     st_refine st' = true /\ i_status (st_inf st') = i_status (st_inf st) /\
     i_iter (st_inf st') = i_iter (st_inf st) /\
     i_factor_retires (st_inf st') = (i_factor_retires (st_inf st) + 1)%Z /\
     i_rho (st_inf st') = i_rho (st_inf st) * k_retry_mul K /\
     i_delta (st_inf st') = i_delta (st_inf st) * k_retry_mul K /\
     i_reg_limit (st_inf st') = qmin (k_reglim_mul K * reg_limit_at_factor S (st_inf st)) (eps_abs S)).
Proof. exact (fun K S st st' => iff_refl _). Qed.
Print Assumptions retry_step_unfold.

Theorem numerics_stop_unfold :
  forall K st st',
    numerics_stop K st st' <->
    (st_it st' = shift_it K (st_it st) /\
     st_refine st' = true /\ i_status (st_inf st') = NUMERICS /\
     i_iter (st_inf st') = (i_iter (st_inf st) + 1)%Z /\
     i_factor_retires (st_inf st') = i_factor_retires (st_inf st) /\
     i_rho (st_inf st') = i_rho (st_inf st) /\ i_delta (st_inf st') = i_delta (st_inf st)).
Proof. exact (fun K st st' => iff_refl _). Qed.
Print Assumptions numerics_stop_unfold.

Theorem reg_limit_at_factor_unfold :
  forall S inf,
    reg_limit_at_factor S inf =
    if ((reg_finetune_primal_update_threshold S <? i_no_primal_update inf)%Z && qeqb (i_rho inf) (i_reg_limit inf)
          && negb (qeqb (i_reg_limit inf) (reg_finetune_lower_limit S))) ||
       ((reg_finetune_dual_update_threshold S <? i_no_dual_update inf)%Z && qeqb (i_delta inf) (i_reg_limit inf)
          && negb (qeqb (i_reg_limit inf) (reg_finetune_lower_limit S)))
    then reg_finetune_lower_limit S else i_reg_limit inf.
Proof. exact (fun S inf => eq_refl). Qed.
Print Assumptions reg_limit_at_factor_unfold.

Theorem init_result_unfold :
  forall K S st st' ok,
    init_result K S st st' ok <->
    (st_it st' = st_it st /\ i_iter (st_inf st') = i_iter (st_inf st) /\
     (i_factor_retires (st_inf st) <= i_factor_retires (st_inf st'))%Z /\
     ((i_factor_retires (st_inf st) <= max_factor_retires S)%Z ->
      (i_factor_retires (st_inf st') <= max_factor_retires S)%Z) /\
     (st_refine st = true -> st_refine st' = true) /\
     (ok = true -> i_status (st_inf st') = i_status (st_inf st)) /\
     (ok = false -> i_status (st_inf st') = NUMERICS /\ st_refine st' = true /\
                    (max_factor_retires S <= i_factor_retires (st_inf st'))%Z) /\
     Z.of_nat (st_calls st') =
       (Z.of_nat (st_calls st) + 1 + (i_factor_retires (st_inf st') - i_factor_retires (st_inf st)) +
        (if st_refine st then 0 else if st_refine st' then 1 else 0))%Z /\
     i_rho (st_inf st') =
       i_rho (st_inf st) *
       Qcpower (k_retry_mul K) (Z.to_nat (i_factor_retires (st_inf st') - i_factor_retires (st_inf st))) /\
     i_delta (st_inf st') =
       i_delta (st_inf st) *
       Qcpower (k_retry_mul K) (Z.to_nat (i_factor_retires (st_inf st') - i_factor_retires (st_inf st)))).
Proof. exact (fun K S st st' ok => iff_refl _). Qed.
Print Assumptions init_result_unfold.

(* ------------------------------------------------------------------------------------------------ *)
(* non-vacuity: the hypotheses are satisfiable, every branch of the protocol is reachable            *)
(* ------------------------------------------------------------------------------------------------ *)

Example default_settings_are_verified : verify_settings default_settings = true.
Proof. vm_compute. reflexivity. Qed.

(* the invariant of T1/T2 holds for a concrete main-loop entry state (min 0.5 x^2 + x, x = 0) *)
Example invariant_satisfiable :
  exists d pc st,
    demo_state false demo_info = Some (d, pc, st) /\
    (0 <= i_iter (st_inf st) <= max_iter default_settings)%Z /\
    (0 <= i_factor_retires (st_inf st) <= max_factor_retires default_settings)%Z.
Proof.
  eexists _, _, _. split; [vm_compute; reflexivity|].
  vm_compute. repeat split; discriminate.
Qed.

(* one pass from that state; summary = (is_Continue, status, iter, factor_retires, calls, refine,
   rho' == rho, rho' == rho * k_retry_mul, reg_limit' == min(k_reglim_mul * reg_limit, eps_abs)) *)
Example pass_first_failure_switches_refinement_on :
  demo_pass false demo_info (fun _ => true) = Some (true, UNSOLVED, 1%Z, 0%Z, 1%nat, true, true, false, false).
Proof. vm_compute. reflexivity. Qed.

Example pass_retry :
  demo_pass true demo_info (fun _ => true) = Some (true, UNSOLVED, 0%Z, 1%Z, 1%nat, true, false, true, true).
Proof. vm_compute. reflexivity. Qed.

Example pass_numerics_after_R_retries :
  demo_pass true (demo_info <| i_factor_retires := 10%Z |>) (fun _ => true)
  = Some (false, NUMERICS, 1%Z, 10%Z, 1%nat, true, true, false, false).
Proof. vm_compute. reflexivity. Qed.

Example pass_success_resets_retries :
  demo_pass true (demo_info <| i_factor_retires := 7%Z |>) (fun _ => false)
  = Some (true, UNSOLVED, 1%Z, 0%Z, 1%nat, true, false, false, false).
Proof. vm_compute. reflexivity. Qed.

(* the fine-tuning switch fires in the failed pass: the retry's reg_limit is NOT min(10 * reg_limit, eps_abs) *)
Example T3_reg_limit_clause_fails_as_stated :
  finetune_fires default_settings demo_info_finetune = true /\
  demo_pass true demo_info_finetune (fun _ => true) = Some (true, UNSOLVED, 0%Z, 1%Z, 1%nat, true, false, true, false).
Proof. split; vm_compute; reflexivity. Qed.

(* whole solve() runs: (status, iter, factor_retires, calls, refine) *)
Example solve_all_factorisations_fail :
  demo_solve default_settings (fun _ => true) = Some (NUMERICS, 0%Z, 10%Z, 12%nat, true).
Proof. vm_compute. reflexivity. Qed.

Example solve_all_but_first_factorisation_fail :
  demo_solve default_settings (fun k => Nat.ltb 0 k) = Some (NUMERICS, 2%Z, 10%Z, 13%nat, true).
Proof. vm_compute. reflexivity. Qed.

Example solve_no_failure :
  demo_solve default_settings (fun _ => false) = Some (SOLVED, 1%Z, 0%Z, 2%nat, false).
Proof. vm_compute. reflexivity. Qed.

Example solve_three_failures_then_success :
  demo_solve default_settings (fun k => Nat.eqb k 1 || Nat.eqb k 2 || Nat.eqb k 3)
  = Some (SOLVED, 2%Z, 0%Z, 5%nat, true).
Proof. vm_compute. reflexivity. Qed.

(* the refinement switch-on consumes an iteration: with max_iter = 1 a single failed factorisation
   yields MAX_ITER_REACHED without any step having been taken *)
Example solve_max_iter_reached_without_a_step :
  verify_settings (with_max_iter default_settings 1) = true /\
  demo_solve (with_max_iter default_settings 1) (fun k => Nat.eqb k 1) = Some (MAX_ITER_REACHED, 1%Z, 0%Z, 2%nat, true).
Proof. split; vm_compute; reflexivity. Qed.
