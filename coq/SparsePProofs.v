(* SparsePProofs.v -- proofs about SparseUpdateP.v (C10, sparse half): what setup keeps of P and what
   update(P) reads of the caller's matrix.  Stdlib only, axiom-free. *)
From PIQP Require Import Base CSC SparseUpdateP.
Local Open Scope nat_scope.

(* ================= generic list facts ================= *)
Section Lists.
Context {A : Type}.

Lemma skipn_cons (d : A) : forall (l : list A) n, n < length l -> skipn n l = nth n l d :: skipn (S n) l.
Proof.
  induction l as [|a l IH]; intros n H; simpl in H; [lia|].
  destruct n as [|n]; [reflexivity|]. simpl. rewrite (IH n) by lia. reflexivity.
Qed.

Lemma nth_skipn (d : A) : forall (l : list A) s k, nth k (skipn s l) d = nth (s + k) l d.
Proof.
  induction l as [|a l IH]; intros s k.
  - rewrite skipn_nil. destruct k, s; reflexivity.
  - destruct s as [|s]; [reflexivity|]. simpl. apply IH.
Qed.

Lemma firstn_S_snoc (d : A) : forall (l : list A) n, n < length l -> firstn (S n) l = firstn n l ++ [nth n l d].
Proof.
  induction l as [|a l IH]; intros n H; simpl in H; [lia|].
  destruct n as [|n]; [reflexivity|].
  change (firstn (S (S n)) (a :: l)) with (a :: firstn (S n) l).
  rewrite (IH n) by lia. reflexivity.
Qed.

Lemma map_nth_seq (d : A) : forall k (l : list A) lo, lo + k <= length l ->
  map (fun p => nth p l d) (seq lo k) = firstn k (skipn lo l).
Proof.
  induction k as [|k IH]; intros l lo H; [reflexivity|].
  simpl seq. simpl map. rewrite (skipn_cons d l lo) by lia.
  simpl. f_equal. apply IH. lia.
Qed.

Lemma In_firstn : forall n (l : list A) x, In x (firstn n l) -> In x l.
Proof. intros n l x H. rewrite <- (firstn_skipn n l). apply in_or_app. now left. Qed.

Lemma In_skipn : forall n (l : list A) x, In x (skipn n l) -> In x l.
Proof. intros n l x H. rewrite <- (firstn_skipn n l). apply in_or_app. now right. Qed.

Lemma In_seg : forall (l : list A) lo hi x, In x (seg l lo hi) -> In x l.
Proof. intros l lo hi x H. unfold seg in H. eapply In_skipn, In_firstn, H. Qed.

Lemma seg_length_le : forall (l : list A) lo hi, length (seg l lo hi) <= hi - lo.
Proof. intros. unfold seg. apply firstn_le_length. Qed.

Lemma seg_app_r : forall (l1 l2 : list A) a b, seg (l1 ++ l2) (length l1 + a) (length l1 + b) = seg l2 a b.
Proof.
  intros. unfold seg. replace (length l1 + b - (length l1 + a)) with (b - a) by lia. f_equal.
  rewrite skipn_app, skipn_all2 by lia. simpl. f_equal. lia.
Qed.

Lemma seg_app_l : forall (l1 l2 : list A), seg (l1 ++ l2) 0 (length l1) = l1.
Proof.
  intros. unfold seg. rewrite Nat.sub_0_r. simpl. rewrite firstn_app, Nat.sub_diag, firstn_all. simpl.
  apply app_nil_r.
Qed.

Lemma filter_length_le' (f : A -> bool) : forall l, length (filter f l) <= length l.
Proof. induction l as [|a l IH]; simpl; [lia|]. destruct (f a); simpl; lia. Qed.

Lemma filter_idem (f : A -> bool) : forall l, filter f (filter f l) = filter f l.
Proof.
  induction l as [|a l IH]; simpl; [reflexivity|].
  destruct (f a) eqn:E; simpl; [rewrite E, IH; reflexivity | exact IH].
Qed.

Lemma forallb_map {B} (g : B -> bool) (f : A -> B) : forall l, forallb g (map f l) = forallb (fun x => g (f x)) l.
Proof. induction l as [|a l IH]; simpl; [reflexivity|]. now rewrite IH. Qed.

Lemma nth_map_seq {B} (f : nat -> B) (d : B) : forall n j, j < n -> nth j (map f (seq 0 n)) d = f j.
Proof.
  intros n j H. rewrite (nth_indep _ d (f 0)) by (rewrite map_length, seq_length; exact H).
  rewrite map_nth, seq_nth by exact H. reflexivity.
Qed.

Lemma skipn_skipn' : forall a b (l : list A), skipn a (skipn b l) = skipn (b + a) l.
Proof.
  intros a b. induction b as [|b IH]; intros l; [reflexivity|].
  destruct l as [|x l]; [now rewrite !skipn_nil|]. simpl. apply IH.
Qed.

End Lists.

Lemma seg_map {A B} (f : A -> B) (l : list A) lo hi : seg (map f l) lo hi = map f (seg l lo hi).
Proof. unfold seg. now rewrite skipn_map, firstn_map. Qed.

Lemma map_fst_combine {A B} : forall (l : list A) (m : list B), length l <= length m -> map fst (combine l m) = l.
Proof.
  induction l as [|a l IH]; intros m H; [reflexivity|].
  destruct m as [|b m]; simpl in H; [lia|]. simpl. f_equal. apply IH. lia.
Qed.

Lemma map_snd_combine {A B} : forall (l : list A) (m : list B), length m <= length l -> map snd (combine l m) = m.
Proof.
  induction l as [|a l IH]; intros m H.
  - destruct m; [reflexivity| simpl in H; lia].
  - destruct m as [|b m]; [reflexivity|]. simpl in H. simpl. f_equal. apply IH. lia.
Qed.

Lemma combine_fst_snd {A B} : forall (l : list (A * B)), combine (map fst l) (map snd l) = l.
Proof. induction l as [|[a b] l IH]; simpl; [reflexivity|]. now rewrite IH. Qed.

Lemma map_length_map {A B} (f : A -> B) : forall (cs : list (list A)), map (@length _) (map (map f) cs) = map (@length _) cs.
Proof. induction cs as [|c cs IH]; simpl; [reflexivity|]. now rewrite map_length, IH. Qed.

(* ================= offsets of a list of chunks ================= *)
Definition offs {A} (cs : list (list A)) (j : nat) : nat := length (concat (firstn j cs)).

Lemma offs_0 {A} (cs : list (list A)) : offs cs 0 = 0.
Proof. reflexivity. Qed.

Lemma offs_S {A} (cs : list (list A)) j : j < length cs -> offs cs (S j) = offs cs j + length (nth j cs []).
Proof.
  intros H. unfold offs. rewrite (firstn_S_snoc [] cs j H), concat_app, app_length. simpl.
  now rewrite app_nil_r.
Qed.

Lemma offs_all {A} (cs : list (list A)) : offs cs (length cs) = length (concat cs).
Proof. unfold offs. now rewrite firstn_all. Qed.

Lemma concat_firstn_S {A} (cs : list (list A)) j : j < length cs ->
  concat (firstn (S j) cs) = concat (firstn j cs) ++ nth j cs [].
Proof. intros H. rewrite (firstn_S_snoc [] cs j H), concat_app. simpl. now rewrite app_nil_r. Qed.

Lemma seg_concat {A} : forall (cs : list (list A)) j, j < length cs ->
  seg (concat cs) (offs cs j) (offs cs j + length (nth j cs [])) = nth j cs [].
Proof.
  induction cs as [|c cs IH]; intros j H; simpl in H; [lia|].
  destruct j as [|j].
  - unfold offs. simpl. apply seg_app_l.
  - unfold offs. simpl firstn. simpl concat. rewrite app_length.
    rewrite <- Nat.add_assoc. rewrite seg_app_r. simpl nth. apply IH. lia.
Qed.

Lemma cumsum_length : forall l a, length (cumsum a l) = S (length l).
Proof. induction l as [|x l IH]; intros a; simpl; [reflexivity|]. now rewrite IH. Qed.

Lemma nth_cumsum {A} : forall (cs : list (list A)) a j, j <= length cs ->
  nth j (cumsum a (map (@length _) cs)) 0 = a + offs cs j.
Proof.
  induction cs as [|c cs IH]; intros a j H; simpl in H.
  - assert (j = 0) by lia. subst. unfold offs. simpl. lia.
  - destruct j as [|j]; [unfold offs; simpl; lia|].
    simpl. rewrite IH by lia. unfold offs. simpl. rewrite app_length. lia.
Qed.

Lemma cumsum_head : forall l a, nth 0 (cumsum a l) 1 = a.
Proof. destruct l; reflexivity. Qed.

Lemma cumsum_nondec : forall l a, nondecb (cumsum a l) = true.
Proof.
  induction l as [|x l IH]; intros a; [reflexivity|].
  simpl cumsum. specialize (IH (a + x)).
  destruct (cumsum (a + x) l) as [|b t] eqn:E.
  - destruct l; discriminate.
  - assert (b = a + x) by (pose proof (cumsum_head l (a + x)) as Hh; rewrite E in Hh; exact Hh).
    subst b. simpl. simpl in IH. rewrite IH.
    assert (a <=? a + x = true) by (apply Nat.leb_le; lia). now rewrite H.
Qed.

(* ================= monadic loops ================= *)
Lemma foldM_app {A St} (f : St -> A -> res St) : forall l1 l2 s,
  foldM f (l1 ++ l2) s = (do s' <- foldM f l1 s ;; foldM f l2 s').
Proof.
  induction l1 as [|a l1 IH]; intros l2 s; simpl; [reflexivity|].
  destruct (f s a); simpl; auto.
Qed.

Lemma for_range_S {St} (f : nat -> St -> res St) k s :
  for_range 0 (S k) f s = (do s' <- for_range 0 k f s ;; f k s').
Proof.
  unfold for_range. rewrite !Nat.sub_0_r, seq_S, foldM_app. simpl.
  destruct (foldM _ _ s); simpl; [|reflexivity]. destruct (f k a); reflexivity.
Qed.

Lemma for_range_0 {St} (f : nat -> St -> res St) s : for_range 0 0 f s = Ok s.
Proof. reflexivity. Qed.

Lemma get_nth {A} (d : A) (l : list A) i : i < length l -> get l i = Ok (nth i l d).
Proof. intros H. unfold get. now rewrite (nth_error_nth' l d H). Qed.

Lemma upd_app_mid {A} : forall (l1 : list A) x l2 n v, n = length l1 -> upd (l1 ++ x :: l2) n v = Ok (l1 ++ v :: l2).
Proof.
  induction l1 as [|a l1 IH]; intros x l2 n v H; subst; simpl; [reflexivity|].
  now rewrite IH.
Qed.

(* the inner copy: dst[o .. o+c) := src[s .. s+c) *)
Lemma copy_seg {A} (d : A) (src : list A) s o : forall c (dst : list A),
  s + c <= length src -> o + c <= length dst ->
  for_range 0 c (fun k ux => do v <- get src (s + k) ;; upd ux (o + k) v) dst
  = Ok (firstn o dst ++ firstn c (skipn s src) ++ skipn (o + c) dst).
Proof.
  induction c as [|c IH]; intros dst Hs Hd.
  - rewrite for_range_0, Nat.add_0_r. simpl. now rewrite firstn_skipn.
  - rewrite for_range_S, IH by lia. cbn [bind].
    rewrite (get_nth d) by lia. cbn [bind].
    rewrite (skipn_cons d dst (o + c)) by lia.
    rewrite app_assoc. rewrite upd_app_mid.
    + f_equal. rewrite <- app_assoc. f_equal.
      rewrite (firstn_S_snoc d) by (rewrite skipn_length; lia).
      rewrite nth_skipn, <- app_assoc. simpl. replace (o + S c) with (S (o + c)) by lia. reflexivity.
    + rewrite app_length, !firstn_length, skipn_length. lia.
Qed.

(* the column loop: chunk j is the first |chunk j| values of the caller's column j *)
Lemma copy_cols_prefix (chunks : list (list F)) (ucp pcp : list nat) (src dst : list F) :
  length ucp = S (length chunks) ->
  (forall j, j <= length chunks -> nth j ucp 0 = offs chunks j) ->
  (forall j, j < length chunks ->
     j < length pcp /\
     nth j chunks [] = firstn (length (nth j chunks [])) (skipn (nth j pcp 0) src) /\
     nth j pcp 0 + length (nth j chunks []) <= length src) ->
  length dst = length (concat chunks) ->
  forall m, m <= length chunks ->
  for_range 0 m (copy_col ucp pcp src) dst = Ok (concat (firstn m chunks) ++ skipn (offs chunks m) dst).
Proof.
  intros Hlen Hu Hp Hd. induction m as [|m IH]; intros Hm.
  - rewrite for_range_0. reflexivity.
  - rewrite for_range_S, IH by lia. cbn [bind]. unfold copy_col.
    rewrite (get_nth 0) by lia. cbn [bind]. rewrite (get_nth 0) by lia. cbn [bind].
    destruct (Hp m Hm) as (Hpl & Hch & Hsrc).
    rewrite (get_nth 0) by lia. cbn [bind].
    rewrite (Hu m) by lia. rewrite (Hu (S m)) by lia. rewrite offs_S by lia.
    replace (offs chunks m + length (nth m chunks []) - offs chunks m) with (length (nth m chunks [])) by lia.
    assert (Hle : offs chunks m + length (nth m chunks []) <= length (concat chunks)).
    { rewrite <- offs_S by lia. unfold offs.
      rewrite <- (firstn_skipn (S m) chunks) at 2. rewrite concat_app, app_length. lia. }
    rewrite (copy_seg (0%Qc : F)).
    + f_equal. rewrite <- Hch.
      rewrite firstn_app. unfold offs at 1 2. rewrite Nat.sub_diag, firstn_all. rewrite firstn_O. rewrite app_nil_r.
      rewrite concat_firstn_S by lia. rewrite <- app_assoc. do 2 f_equal.
      rewrite skipn_app. fold (offs chunks m).
      rewrite skipn_all2 by (unfold offs; lia). simpl.
      replace (offs chunks m + length (nth m chunks []) - length (concat (firstn m chunks)))
        with (length (nth m chunks [])) by (unfold offs; lia).
      rewrite skipn_skipn'. f_equal. unfold offs. lia.
    + exact Hsrc.
    + rewrite app_length, skipn_length. fold (offs chunks m). lia.
Qed.

Lemma copy_cols_all (chunks : list (list F)) (ucp pcp : list nat) (src dst : list F) :
  length ucp = S (length chunks) ->
  (forall j, j <= length chunks -> nth j ucp 0 = offs chunks j) ->
  (forall j, j < length chunks ->
     j < length pcp /\
     nth j chunks [] = firstn (length (nth j chunks [])) (skipn (nth j pcp 0) src) /\
     nth j pcp 0 + length (nth j chunks []) <= length src) ->
  length dst = length (concat chunks) ->
  for_range 0 (length chunks) (copy_col ucp pcp src) dst = Ok (concat chunks).
Proof.
  intros H1 H2 H3 H4. rewrite (copy_cols_prefix chunks ucp pcp src dst H1 H2 H3 H4) by lia.
  rewrite firstn_all, offs_all, skipn_all2 by lia. now rewrite app_nil_r.
Qed.

(* ================= well-formedness as propositions ================= *)
Lemma nondecb_nth : forall l, nondecb l = true -> forall i j, i <= j -> j < length l -> nth i l 0 <= nth j l 0.
Proof.
  induction l as [|a l IH]; intros H i j Hij Hj; simpl in Hj; [lia|].
  destruct l as [|b t].
  - simpl in Hj. assert (j = 0) by lia. assert (i = 0) by lia. subst. lia.
  - simpl in H. apply andb_prop in H. destruct H as [Hab Ht]. apply Nat.leb_le in Hab.
    destruct j as [|j]; [assert (i = 0) by lia; subst; lia|].
    destruct i as [|i].
    + change (a <= nth j (b :: t) 0). specialize (IH Ht 0 j). simpl in IH. simpl in Hj.
      assert (b <= nth j (b :: t) 0) by (apply IH; lia). lia.
    + change (nth i (b :: t) 0 <= nth j (b :: t) 0). apply IH; [exact Ht| lia | simpl in *; lia].
Qed.

Record wf_props {V} (A : csc V) : Prop := {
  wfp_len : length (colptr A) = S (ncols A);
  wfp_first : nth 0 (colptr A) 0 = 0;
  wfp_mono : forall i j, i <= j -> j <= ncols A -> nth i (colptr A) 0 <= nth j (colptr A) 0;
  wfp_last : nth (ncols A) (colptr A) 0 = length (rowind A);
  wfp_vals : length (vals A) = length (rowind A);
  wfp_rows : forall r, In r (rowind A) -> r < nrows A;
  wfp_bound : forall j, nth j (colptr A) 0 <= length (rowind A)
}.

Lemma wf_csc_props {V} (A : csc V) : wf_csc A = true -> wf_props A.
Proof.
  unfold wf_csc. intros H. rewrite !andb_true_iff in H.
  destruct H as [[[[[H H4] H2] H3] H1] H0].
  apply Nat.eqb_eq in H, H3, H1, H4.
  assert (Hmono : forall i j, i <= j -> j <= ncols A -> nth i (colptr A) 0 <= nth j (colptr A) 0).
  { intros i j Hij Hj. apply nondecb_nth; [exact H2 | exact Hij | lia]. }
  constructor; auto.
  - destruct (colptr A) as [|a l]; [discriminate|]. simpl in *. exact H4.
  - intros r Hr. rewrite forallb_forall in H0. apply Nat.ltb_lt. now apply H0.
  - intros j. destruct (Nat.le_gt_cases j (ncols A)) as [Hj|Hj].
    + rewrite <- H3. apply Hmono; lia.
    + rewrite nth_overflow by lia. lia.
Qed.

Lemma same_patternb_true {V W} (A : csc V) (B : csc W) : same_patternb A B = true -> same_pattern A B.
Proof.
  assert (Hl : forall a b, list_nat_eqb a b = true -> a = b).
  { induction a as [|x a IH]; destruct b as [|y b]; simpl; intros H; try discriminate; [reflexivity|].
    apply andb_prop in H. destruct H as [H1 H2]. apply Nat.eqb_eq in H1. subst. f_equal. now apply IH. }
  unfold same_patternb, same_pattern. intros H. rewrite !andb_true_iff in H.
  destruct H as [[[H1 H2] H3] H4]. apply Nat.eqb_eq in H1, H2. auto.
Qed.

(* ================= strictly increasing rows: the filter is a prefix ================= *)
Fixpoint sinc (l : list nat) : Prop :=
  match l with [] => True | a :: t => Forall (lt a) t /\ sinc t end.

Lemma incb_sinc : forall l, incb l = true -> sinc l.
Proof.
  induction l as [|a l IH]; intros H; [exact I|].
  destruct l as [|b t]; [split; [constructor | exact I]|].
  change ((a <? b) && incb (b :: t) = true) in H. apply andb_prop in H. destruct H as [Hab Ht].
  apply Nat.ltb_lt in Hab. specialize (IH Ht). split; [|exact IH].
  destruct IH as [Hb _]. constructor; [exact Hab|].
  eapply Forall_impl; [|exact Hb]. intros x Hx. simpl in Hx. lia.
Qed.

Lemma sinc_incb : forall l, sinc l -> incb l = true.
Proof.
  induction l as [|a l IH]; intros H; [reflexivity|].
  destruct l as [|b t]; [reflexivity|]. destruct H as [Ha Hs].
  change ((a <? b) && incb (b :: t) = true). rewrite (IH Hs), andb_true_r.
  apply Nat.ltb_lt. now inversion Ha.
Qed.

Section FilterPrefix.
Context {V : Type}.

Lemma filter_upper_nil j : forall (l : list (nat * V)) r, j < r -> Forall (lt r) (map fst l) -> filter (keep_upper j) l = [].
Proof.
  induction l as [|[a v] l IH]; intros r Hr H; [reflexivity|].
  simpl in H. inversion H; subst. simpl. change (keep_upper j (a, v)) with (a <=? j).
  assert (Hf : a <=? j = false) by (apply Nat.leb_gt; lia). rewrite Hf. eapply IH; eauto.
Qed.

Lemma filter_upper_prefix j : forall (l : list (nat * V)), sinc (map fst l) ->
  filter (keep_upper j) l = firstn (length (filter (keep_upper j) l)) l.
Proof.
  induction l as [|[a v] l IH]; intros H; [reflexivity|].
  simpl in H. destruct H as [Ha Hs]. simpl.
  change (keep_upper j (a, v)) with (a <=? j).
  destruct (a <=? j) eqn:E.
  - simpl. f_equal. now apply IH.
  - apply Nat.leb_gt in E. rewrite (filter_upper_nil j l a E Ha). reflexivity.
Qed.

Lemma sinc_filter (f : nat * V -> bool) : forall (l : list (nat * V)), sinc (map fst l) -> sinc (map fst (filter f l)).
Proof.
  induction l as [|[a v] l IH]; intros H; [exact I|].
  simpl in H. destruct H as [Ha Hs]. simpl. destruct (f (a, v)); [|now apply IH].
  simpl. split; [|now apply IH].
  rewrite Forall_forall in *. intros x Hx. apply Ha.
  rewrite in_map_iff in *. destruct Hx as (e & He & Hin). exists e. split; [exact He|].
  apply filter_In in Hin. tauto.
Qed.

Lemma takew_length_le {A} (f : A -> bool) : forall l, length (takew f l) <= length l.
Proof. induction l as [|a l IH]; simpl; [lia|]. destruct (f a); simpl; lia. Qed.

Lemma takew_idem {A} (f : A -> bool) : forall l, takew f (takew f l) = takew f l.
Proof. induction l as [|a l IH]; [reflexivity|]. simpl. destruct (f a) eqn:E; [simpl; rewrite E, IH|]; reflexivity. Qed.

Lemma takew_In {A} (f : A -> bool) : forall l x, In x (takew f l) -> In x l /\ f x = true.
Proof.
  induction l as [|a l IH]; intros x H; [destruct H|]. simpl in H. destruct (f a) eqn:E; [|destruct H].
  destruct H as [<-|H]; [split; [now left|exact E]|]. destruct (IH x H). split; [now right|assumption].
Qed.

Lemma takew_prefix {A} (f : A -> bool) : forall l, takew f l = firstn (length (takew f l)) l.
Proof. induction l as [|a l IH]; [reflexivity|]. simpl. destruct (f a); [simpl; now f_equal|reflexivity]. Qed.

Lemma takew_all {A} (f : A -> bool) : forall l, (forall x, In x l -> f x = true) -> takew f l = l.
Proof.
  induction l as [|a l IH]; intros H; [reflexivity|]. simpl. rewrite (H a) by now left.
  f_equal. apply IH. intros x Hx. apply H. now right.
Qed.

(* the prefix is the whole filter as soon as the lengths agree *)
Lemma takew_filter_len {A} (f : A -> bool) : forall l, length (takew f l) = length (filter f l) -> takew f l = filter f l.
Proof.
  induction l as [|a l IH]; intros H; [reflexivity|]. simpl in *. destruct (f a).
  - simpl in H. f_equal. apply IH. lia.
  - simpl in H. symmetry. apply length_zero_iff_nil. lia.
Qed.

Lemma takew_upper_sorted j : forall (l : list (nat * V)), sinc (map fst l) ->
  takew (keep_upper j) l = filter (keep_upper j) l.
Proof.
  induction l as [|[a v] l IH]; intros H; [reflexivity|].
  simpl in H. destruct H as [Ha Hs]. simpl. change (keep_upper j (a, v)) with (a <=? j).
  destruct (a <=? j) eqn:E.
  - f_equal. now apply IH.
  - apply Nat.leb_gt in E. now rewrite (filter_upper_nil j l a E Ha).
Qed.

End FilterPrefix.

(* ================= structure of triu ================= *)
Section TriuStructure.
Context {V : Type}.
Implicit Types A P : csc V.

Lemma triu_cols_length A : length (triu_cols A) = ncols A.
Proof. unfold triu_cols. now rewrite map_length, seq_length. Qed.

Lemma nth_triu_cols A j : j < ncols A -> nth j (triu_cols A) [] = triu_col A j.
Proof. intros H. unfold triu_cols. now apply nth_map_seq. Qed.

Lemma triu_nrows A : nrows (triu A) = nrows A. Proof. reflexivity. Qed.
Lemma triu_ncols A : ncols (triu A) = ncols A. Proof. reflexivity. Qed.
Lemma triu_colptr A : colptr (triu A) = cumsum 0 (map (@length _) (triu_cols A)). Proof. reflexivity. Qed.
Lemma triu_rowind A : rowind (triu A) = map fst (concat (triu_cols A)). Proof. reflexivity. Qed.
Lemma triu_vals A : vals (triu A) = map snd (concat (triu_cols A)). Proof. reflexivity. Qed.

Lemma triu_colptr_lo A j : j <= ncols A -> nth j (colptr (triu A)) 0 = offs (triu_cols A) j.
Proof. intros H. rewrite triu_colptr, nth_cumsum by (rewrite triu_cols_length; exact H). reflexivity. Qed.

Lemma triu_colptr_hi A j : j < ncols A ->
  nth (S j) (colptr (triu A)) 0 = offs (triu_cols A) j + length (triu_col A j).
Proof.
  intros H. rewrite triu_colptr_lo by lia. rewrite offs_S by (rewrite triu_cols_length; exact H).
  now rewrite nth_triu_cols.
Qed.

Lemma triu_col_nnz A j : j < ncols A ->
  nth (S j) (colptr (triu A)) 0 - nth j (colptr (triu A)) 0 = length (triu_col A j).
Proof. intros H. rewrite triu_colptr_hi, triu_colptr_lo by lia. lia. Qed.

Lemma col_entries_triu A j : j < ncols A -> col_entries (triu A) j = triu_col A j.
Proof.
  intros H. unfold col_entries. rewrite triu_colptr_hi, triu_colptr_lo by lia.
  rewrite triu_rowind, triu_vals, combine_fst_snd.
  rewrite <- (nth_triu_cols A j H). apply seg_concat. now rewrite triu_cols_length.
Qed.

(* upper-only storage is passed through unchanged *)
Lemma triu_idem A : triu (triu A) = triu A.
Proof.
  assert (Hc : triu_cols (triu A) = triu_cols A).
  { unfold triu_cols. rewrite triu_ncols. apply map_ext_in.
    intros j Hj. apply in_seq in Hj. unfold triu_col at 1. rewrite col_entries_triu by lia.
    unfold triu_col. apply takew_idem. }
  unfold triu at 1. cbv zeta. rewrite Hc. reflexivity.
Qed.

Lemma In_triu_col A j e : In e (triu_col A j) -> In e (combine (rowind A) (vals A)) /\ fst e <= j.
Proof.
  unfold triu_col, col_entries. intros H. apply takew_In in H. destruct H as [H1 H2].
  split; [eapply In_seg; exact H1|]. unfold keep_upper in H2. now apply Nat.leb_le.
Qed.

Lemma In_triu_concat A e : In e (concat (triu_cols A)) -> exists j, j < ncols A /\ In e (triu_col A j).
Proof.
  intros H. apply in_concat in H. destruct H as (c & Hc & He). unfold triu_cols in Hc.
  apply in_map_iff in Hc. destruct Hc as (j & <- & Hj). apply in_seq in Hj. exists j. split; [lia|exact He].
Qed.

Lemma wf_triu A : wf_csc A = true -> wf_csc (triu A) = true.
Proof.
  intros H. apply wf_csc_props in H. unfold wf_csc. rewrite !andb_true_iff. repeat split.
  - apply Nat.eqb_eq. now rewrite triu_colptr, cumsum_length, map_length, triu_cols_length.
  - apply Nat.eqb_eq. rewrite triu_colptr. apply cumsum_head.
  - rewrite triu_colptr. apply cumsum_nondec.
  - apply Nat.eqb_eq. rewrite triu_ncols, triu_colptr_lo by lia.
    rewrite <- (triu_cols_length A) at 1. rewrite offs_all, triu_rowind. now rewrite map_length.
  - apply Nat.eqb_eq. rewrite triu_vals, triu_rowind. now rewrite !map_length.
  - apply forallb_forall. intros r Hr. rewrite triu_rowind in Hr. apply in_map_iff in Hr.
    destruct Hr as ([r' v] & <- & He). apply In_triu_concat in He. destruct He as (j & _ & He).
    apply In_triu_col in He. destruct He as [He _]. apply in_combine_l in He.
    apply Nat.ltb_lt. simpl. now apply (wfp_rows A H).
Qed.

(* columns of a well-formed matrix *)
Lemma col_entries_rows A j : wf_csc A = true ->
  map fst (col_entries A j) = seg (rowind A) (nth j (colptr A) 0) (nth (S j) (colptr A) 0).
Proof.
  intros H. apply wf_csc_props in H. unfold col_entries. rewrite <- seg_map.
  rewrite map_fst_combine by (rewrite (wfp_vals A H); lia). reflexivity.
Qed.

Lemma col_entries_vals A j : wf_csc A = true ->
  map snd (col_entries A j) = seg (vals A) (nth j (colptr A) 0) (nth (S j) (colptr A) 0).
Proof.
  intros H. apply wf_csc_props in H. unfold col_entries. rewrite <- seg_map.
  rewrite map_snd_combine by (rewrite (wfp_vals A H); lia). reflexivity.
Qed.

Lemma col_entries_overflow A j : wf_csc A = true -> ncols A <= j -> col_entries A j = [].
Proof.
  intros H Hj. apply wf_csc_props in H. unfold col_entries, seg.
  rewrite (nth_overflow (colptr A) 0 (n := S j)) by (rewrite (wfp_len A H); lia). reflexivity.
Qed.

Lemma col_bounds A j : wf_csc A = true ->
  nth j (colptr A) 0 + (nth (S j) (colptr A) 0 - nth j (colptr A) 0) <= length (rowind A).
Proof.
  intros H. apply wf_csc_props in H.
  pose proof (wfp_bound A H j). pose proof (wfp_bound A H (S j)). lia.
Qed.

Lemma nth_row_in_col A j p : wf_csc A = true ->
  In p (seq (nth j (colptr A) 0) (nth (S j) (colptr A) 0 - nth j (colptr A) 0)) ->
  In (nth p (rowind A) 0) (map fst (col_entries A j)).
Proof.
  intros H Hp. rewrite col_entries_rows by exact H. unfold seg.
  rewrite <- (map_nth_seq 0) by (apply col_bounds; exact H).
  apply (in_map (fun p => nth p (rowind A) 0)). exact Hp.
Qed.

Lemma upper_only_triu A : wf_csc A = true -> upper_only (triu A) = true.
Proof.
  intros H. unfold upper_only. apply forallb_forall. intros j Hj. apply in_seq in Hj.
  rewrite triu_ncols in Hj. apply forallb_forall. intros p Hp.
  apply nth_row_in_col in Hp; [|now apply wf_triu].
  rewrite col_entries_triu in Hp by lia. apply in_map_iff in Hp. destruct Hp as (e & He & Hin).
  apply In_triu_col in Hin. apply Nat.leb_le. rewrite <- He. tauto.
Qed.

Lemma sorted_cols_col A j : wf_csc A = true -> sorted_cols A = true -> j < ncols A ->
  sinc (map fst (col_entries A j)).
Proof.
  intros H Hs Hj. rewrite col_entries_rows by exact H. apply incb_sinc.
  unfold sorted_cols in Hs. rewrite forallb_forall in Hs. apply Hs. apply in_seq. lia.
Qed.

(* in a sorted column the code's prefix is the whole upper part *)
Lemma triu_col_filter_sorted A j : wf_csc A = true -> sorted_cols A = true -> j < ncols A ->
  triu_col A j = triu_filter_col A j.
Proof. intros H Hs Hj. unfold triu_col, triu_filter_col. apply takew_upper_sorted. now apply sorted_cols_col. Qed.

Lemma upper_first_col A j : upper_first_cols A = true -> j < ncols A -> triu_col A j = triu_filter_col A j.
Proof.
  intros H Hj. unfold upper_first_cols in H. rewrite forallb_forall in H.
  assert (Hin : In j (seq 0 (ncols A))) by (apply in_seq; lia). specialize (H j Hin). apply Nat.eqb_eq in H.
  unfold triu_col, triu_filter_col in *. now apply takew_filter_len.
Qed.

Lemma sorted_upper_first A : wf_csc A = true -> sorted_cols A = true -> upper_first_cols A = true.
Proof.
  intros H Hs. unfold upper_first_cols. apply forallb_forall. intros j Hj. apply in_seq in Hj.
  apply Nat.eqb_eq. rewrite triu_col_filter_sorted by (auto; lia). reflexivity.
Qed.

Lemma sinc_triu_col A j : wf_csc A = true -> sorted_cols A = true -> j < ncols A -> sinc (map fst (triu_col A j)).
Proof.
  intros H Hs Hj. rewrite triu_col_filter_sorted by assumption. unfold triu_filter_col. apply sinc_filter.
  now apply sorted_cols_col.
Qed.

Lemma sorted_cols_triu A : wf_csc A = true -> sorted_cols A = true -> sorted_cols (triu A) = true.
Proof.
  intros H Hs. unfold sorted_cols. apply forallb_forall. intros j Hj. apply in_seq in Hj.
  rewrite triu_ncols in Hj. rewrite <- col_entries_rows by (now apply wf_triu).
  rewrite col_entries_triu by lia. apply sinc_incb. apply sinc_triu_col; auto; lia.
Qed.

(* the key fact: the kept entries are the first ones of the column (by construction; no sortedness needed) *)
Lemma triu_col_prefix A j : triu_col A j = firstn (length (triu_col A j)) (col_entries A j).
Proof. unfold triu_col. apply takew_prefix. Qed.

Lemma triu_col_length_le A j : length (triu_col A j) <= nth (S j) (colptr A) 0 - nth j (colptr A) 0.
Proof.
  unfold triu_col. etransitivity; [apply takew_length_le|]. unfold col_entries. apply seg_length_le.
Qed.

Lemma triu_col_vals_prefix A j : wf_csc A = true ->
  map snd (triu_col A j) = firstn (length (triu_col A j)) (skipn (nth j (colptr A) 0) (vals A)).
Proof.
  intros H. rewrite (triu_col_prefix A j) at 1.
  rewrite <- firstn_map, col_entries_vals by exact H. unfold seg. rewrite firstn_firstn.
  rewrite Nat.min_l by apply triu_col_length_le. reflexivity.
Qed.

Lemma triu_col_rows_prefix A j : wf_csc A = true ->
  map fst (triu_col A j) = firstn (length (triu_col A j)) (skipn (nth j (colptr A) 0) (rowind A)).
Proof.
  intros H. rewrite (triu_col_prefix A j) at 1.
  rewrite <- firstn_map, col_entries_rows by exact H. unfold seg. rewrite firstn_firstn.
  rewrite Nat.min_l by apply triu_col_length_le. reflexivity.
Qed.

Lemma triu_col_src_bound A j : wf_csc A = true ->
  nth j (colptr A) 0 + length (triu_col A j) <= length (vals A).
Proof.
  intros H. pose proof (col_bounds A j H). pose proof (triu_col_length_le A j).
  apply wf_csc_props in H. rewrite (wfp_vals A H). lia.
Qed.

End TriuStructure.

(* ================= semantic entries ================= *)
Definition col_sum (i : nat) (l : list (nat * F)) : F :=
  qsum (map (fun e => if fst e =? i then snd e else 0%Qc) l).

Lemma csc_get_entries (A : csc F) i j : wf_csc A = true -> csc_get A i j = col_sum i (col_entries A j).
Proof.
  intros H. unfold csc_get, col_sum, col_entries, seg. cbv zeta. f_equal.
  pose proof (col_bounds A j H) as Hb. apply wf_csc_props in H.
  rewrite <- (map_nth_seq (0, 0%Qc)) by (rewrite combine_length, (wfp_vals A H); lia).
  rewrite map_map. apply map_ext. intros p.
  rewrite combine_nth by (symmetry; apply (wfp_vals A H)). reflexivity.
Qed.

Lemma col_sum_filter i j : forall l : list (nat * F),
  col_sum i (filter (keep_upper j) l) = if i <=? j then col_sum i l else 0%Qc.
Proof.
  induction l as [|[r v] l IH].
  - simpl. destruct (i <=? j); reflexivity.
  - simpl filter. change (keep_upper j (r, v)) with (r <=? j).
    destruct (r <=? j) eqn:E1.
    + unfold col_sum in *. simpl. rewrite IH. destruct (i <=? j) eqn:E2; [reflexivity|].
      apply Nat.leb_le in E1. apply Nat.leb_gt in E2.
      assert (Hn : r =? i = false) by (apply Nat.eqb_neq; lia). rewrite Hn. apply Qcplus_0_l.
    + rewrite IH. unfold col_sum. simpl. destruct (i <=? j) eqn:E2; [|reflexivity].
      apply Nat.leb_gt in E1. apply Nat.leb_le in E2.
      assert (Hn : r =? i = false) by (apply Nat.eqb_neq; lia). rewrite Hn. symmetry. apply Qcplus_0_l.
Qed.

Lemma triu_get (A : csc F) i j : wf_csc A = true -> upper_first_cols A = true ->
  csc_get (triu A) i j = if i <=? j then csc_get A i j else 0%Qc.
Proof.
  intros H Hu. rewrite !csc_get_entries by (auto using wf_triu).
  destruct (Nat.lt_ge_cases j (ncols A)) as [Hj|Hj].
  - rewrite col_entries_triu by exact Hj. rewrite (upper_first_col A j Hu Hj). apply col_sum_filter.
  - rewrite !col_entries_overflow by (auto using wf_triu). destruct (i <=? j); reflexivity.
Qed.

(* ================= update(P) ================= *)
Lemma update_P_check_ok (Pu P : csc F) :
  wf_csc P = true -> nrows P = ncols Pu -> ncols P = ncols Pu -> same_pattern (triu P) Pu ->
  update_P_check Pu P = true.
Proof.
  intros HP Hr Hc (_ & _ & Hcp & _). unfold update_P_check. rewrite !andb_true_iff. repeat split.
  - now apply Nat.eqb_eq.
  - now apply Nat.eqb_eq.
  - apply forallb_forall. intros j Hj. apply in_seq in Hj. cbv zeta. rewrite <- Hcp.
    rewrite triu_col_nnz by lia. apply negb_true_iff, Nat.ltb_ge. apply triu_col_length_le.
Qed.

(* the copy loop writes exactly the value array of triu P, whatever Pu held before *)
Lemma update_P_copy_vals (Pu P : csc F) :
  wf_csc P = true ->
  colptr Pu = colptr (triu P) -> length (vals Pu) = length (vals (triu P)) ->
  for_range 0 (ncols P) (copy_col (colptr Pu) (colptr P) (vals P)) (vals Pu) = Ok (vals (triu P)).
Proof.
  intros HP Hcp Hlen. pose proof (wf_csc_props P HP) as HPp.
  set (chunks := map (map snd) (triu_cols P)).
  assert (Hn : length chunks = ncols P) by (unfold chunks; now rewrite map_length, triu_cols_length).
  assert (Hcc : concat chunks = vals (triu P)) by (unfold chunks; now rewrite <- concat_map).
  assert (Hnth : forall j, j < ncols P -> nth j chunks [] = map snd (triu_col P j)).
  { intros j Hj. unfold chunks. change (@nil F) with (map (@snd nat F) []).
    now rewrite map_nth, nth_triu_cols. }
  rewrite <- Hn, <- Hcc. apply copy_cols_all.
  - now rewrite Hcp, triu_colptr, cumsum_length, map_length, triu_cols_length, Hn.
  - intros j Hj. rewrite Hcp, triu_colptr. rewrite <- (map_length_map snd). fold chunks.
    now rewrite nth_cumsum.
  - intros j Hj. rewrite Hn in Hj. rewrite (Hnth j Hj), map_length. repeat split.
    + rewrite (wfp_len P HPp). lia.
    + now apply triu_col_vals_prefix.
    + now apply triu_col_src_bound.
  - now rewrite Hcc.
Qed.

(* whatever the order inside the caller's columns: the copy loop reproduces what setup would store *)
Theorem update_P_copy_is_triu_any (Pu P : csc F) :
  wf_csc Pu = true -> wf_csc P = true -> same_pattern (triu P) Pu ->
  update_P_copy Pu P = Ok (triu P).
Proof.
  intros HPu HP (Hr & Hc & Hcp & Hri). unfold update_P_copy.
  rewrite update_P_copy_vals; auto.
  - cbn [bind]. rewrite <- Hr, <- Hc, <- Hcp, <- Hri. reflexivity.
  - apply wf_csc_props in HPu. rewrite (wfp_vals Pu HPu), <- Hri, triu_vals, triu_rowind.
    now rewrite !map_length.
Qed.

Theorem update_P_copy_is_triu (Pu P : csc F) :
  wf_csc Pu = true -> wf_csc P = true -> sorted_cols P = true -> same_pattern (triu P) Pu ->
  update_P_copy Pu P = Ok (triu P).
Proof. intros HPu HP _ Hp. now apply update_P_copy_is_triu_any. Qed.

Lemma same_pattern_refl {V} (A : csc V) : same_pattern A A.
Proof. unfold same_pattern. auto. Qed.

Lemma csc_get_pattern (A B : csc F) i j :
  colptr A = colptr B -> rowind A = rowind B -> vals A = vals B -> csc_get A i j = csc_get B i j.
Proof. intros H1 H2 H3. unfold csc_get. now rewrite H1, H2, H3. Qed.

(* 1. update(P) on a sorted caller matrix whose upper triangle has the stored pattern *)
Theorem update_reads_upper_only_sparse_proof : forall Pu P : csc F,
  wf_csc Pu = true -> wf_csc P = true ->
  nrows P = nrows Pu -> ncols P = ncols Pu -> nrows P = ncols P ->
  sorted_cols P = true ->
  same_pattern (triu P) Pu ->
  update_P_check Pu P = true /\
  update_P_copy Pu P = Ok (triu P) /\
  exists Pu' : csc F,
    update_P_copy Pu P = Ok Pu' /\
    Pu' = mkcsc (nrows Pu) (ncols Pu) (colptr Pu) (rowind Pu) (vals (triu P)) /\
    same_pattern Pu' Pu /\
    (forall i j, i <= j -> j < ncols P -> csc_get Pu' i j = csc_get P i j) /\
    (forall i j, csc_get Pu' i j = if i <=? j then csc_get P i j else 0%Qc).
Proof.
  intros Pu P HPu HP Hr Hc Hsq Hs Hpat.
  pose proof (update_P_copy_is_triu Pu P HPu HP Hs Hpat) as Hcopy.
  split; [|split; [exact Hcopy|]].
  - apply update_P_check_ok; auto; lia.
  - exists (triu P). destruct Hpat as (Hr' & Hc' & Hcp & Hri).
    split; [exact Hcopy|]. split; [rewrite <- Hr', <- Hc', <- Hcp, <- Hri; reflexivity|].
    split; [unfold same_pattern; auto|]. split.
    + intros i j Hij Hj. rewrite triu_get by (auto using sorted_upper_first).
      assert (E : i <=? j = true) by (now apply Nat.leb_le). now rewrite E.
    + intros i j. apply triu_get; auto using sorted_upper_first.
Qed.

(* 2. the result does not depend on how the caller stores the upper triangle *)
Theorem update_storage_independent_sparse_proof : forall Pu P1 P2 : csc F,
  wf_csc Pu = true ->
  wf_csc P1 = true -> nrows P1 = nrows Pu -> ncols P1 = ncols Pu -> nrows P1 = ncols P1 ->
  sorted_cols P1 = true -> same_pattern (triu P1) Pu ->
  wf_csc P2 = true -> nrows P2 = nrows Pu -> ncols P2 = ncols Pu -> nrows P2 = ncols P2 ->
  sorted_cols P2 = true -> same_pattern (triu P2) Pu ->
  triu P1 = triu P2 ->
  update_P_check Pu P1 = update_P_check Pu P2 /\
  update_P_copy Pu P1 = update_P_copy Pu P2.
Proof.
  intros Pu P1 P2 HPu H1 Hr1 Hc1 Hq1 Hs1 Hp1 H2 Hr2 Hc2 Hq2 Hs2 Hp2 E. split.
  - rewrite !update_P_check_ok; auto; lia.
  - rewrite (update_P_copy_is_triu Pu P1), (update_P_copy_is_triu Pu P2); auto. now rewrite E.
Qed.

(* semantic form: two sorted storages whose upper triangles have the stored pattern and agree entry-wise *)
Lemma col_sum_above r : forall l : list (nat * F), Forall (lt r) (map fst l) -> col_sum r l = 0%Qc.
Proof.
  induction l as [|[a v] l IH]; intros H; [reflexivity|].
  simpl in H. inversion H; subst. unfold col_sum in *. simpl.
  assert (Hn : a =? r = false) by (apply Nat.eqb_neq; lia). rewrite Hn, IH by assumption.
  apply Qcplus_0_l.
Qed.

Lemma Qcplus_cancel_l (a x y : Qc) : (a + x = a + y)%Qc -> x = y.
Proof. intros H. replace x with ((a + x) - a)%Qc by ring. rewrite H. ring. Qed.

Lemma sorted_entries_determined : forall l1 l2 : list (nat * F),
  map fst l1 = map fst l2 -> sinc (map fst l1) ->
  (forall i, col_sum i l1 = col_sum i l2) -> l1 = l2.
Proof.
  induction l1 as [|[r v1] l1 IH]; intros [|[r2 v2] l2] Hf Hs Hsum; try discriminate; [reflexivity|].
  simpl in Hf. injection Hf as <- Hf. simpl in Hs. destruct Hs as [Ha Hs].
  assert (Hv : v1 = v2).
  { pose proof (Hsum r) as Hr. unfold col_sum in Hr. simpl in Hr. rewrite Nat.eqb_refl in Hr.
    fold (col_sum r l1) in Hr. fold (col_sum r l2) in Hr.
    rewrite (col_sum_above r l1 Ha) in Hr. rewrite Hf in Ha. rewrite (col_sum_above r l2 Ha) in Hr.
    now rewrite !Qcplus_0_r in Hr. }
  subst v2. f_equal. apply IH; auto. intros i. specialize (Hsum i).
  unfold col_sum in Hsum. simpl in Hsum. eapply Qcplus_cancel_l. exact Hsum.
Qed.

Theorem triu_eq_of_entries (Pu P1 P2 : csc F) :
  wf_csc P1 = true -> sorted_cols P1 = true -> same_pattern (triu P1) Pu ->
  wf_csc P2 = true -> sorted_cols P2 = true -> same_pattern (triu P2) Pu ->
  (forall i j, i <= j -> j < ncols Pu -> csc_get P1 i j = csc_get P2 i j) ->
  triu P1 = triu P2.
Proof.
  intros H1 Hs1 (Hr1 & Hc1 & Hcp1 & Hri1) H2 Hs2 (Hr2 & Hc2 & Hcp2 & Hri2) Hget.
  rewrite triu_nrows in Hr1, Hr2. rewrite triu_ncols in Hc1, Hc2.
  assert (Hcols : triu_cols P1 = triu_cols P2).
  { unfold triu_cols. rewrite Hc1, <- Hc2. apply map_ext_in. intros j Hj. apply in_seq in Hj.
    assert (Hj1 : j < ncols P1) by lia. assert (Hj2 : j < ncols P2) by lia.
    apply sorted_entries_determined.
    - rewrite <- !col_entries_triu by assumption.
      rewrite !col_entries_rows by (now apply wf_triu). now rewrite Hcp1, Hri1, Hcp2, Hri2.
    - now apply sinc_triu_col.
    - intros i. rewrite <- !col_entries_triu by assumption.
      rewrite <- !csc_get_entries by (now apply wf_triu). rewrite !triu_get by (auto using sorted_upper_first).
      destruct (i <=? j) eqn:E; [|reflexivity]. apply Hget; [now apply Nat.leb_le | lia]. }
  unfold triu. cbv zeta. rewrite Hcols, Hr1, Hr2, Hc1, Hc2. reflexivity.
Qed.

Theorem update_semantic_independent_sparse_proof : forall Pu P1 P2 : csc F,
  wf_csc Pu = true ->
  wf_csc P1 = true -> sorted_cols P1 = true -> same_pattern (triu P1) Pu ->
  wf_csc P2 = true -> sorted_cols P2 = true -> same_pattern (triu P2) Pu ->
  (forall i j, i <= j -> j < ncols Pu -> csc_get P1 i j = csc_get P2 i j) ->
  update_P_copy Pu P1 = update_P_copy Pu P2.
Proof.
  intros Pu P1 P2 HPu H1 Hs1 Hp1 H2 Hs2 Hp2 Hget.
  rewrite (update_P_copy_is_triu Pu P1), (update_P_copy_is_triu Pu P2); auto.
  f_equal. eapply triu_eq_of_entries; eauto.
Qed.

(* 4. setup *)
Theorem setup_reads_upper_only_sparse_core : forall P : csc F,
  wf_csc P = true ->
  nrows (triu P) = nrows P /\ ncols (triu P) = ncols P /\
  wf_csc (triu P) = true /\
  upper_only (triu P) = true /\
  (upper_first_cols P = true -> forall i j, csc_get (triu P) i j = if i <=? j then csc_get P i j else 0%Qc) /\
  triu (triu P) = triu P /\
  (sorted_cols P = true -> sorted_cols (triu P) = true).
Proof.
  intros P H. repeat split.
  - now apply wf_triu.
  - now apply upper_only_triu.
  - intros Hu i j. now apply triu_get.
  - apply triu_idem.
  - now apply sorted_cols_triu.
Qed.

(* ================= computing with Qc ================= *)
Lemma qeqb_true_eq (a b : F) : qeqb a b = true -> a = b.
Proof. unfold qeqb. intros H. apply Qc_is_canon. now apply Qeq_bool_eq. Qed.

Lemma qeqb_false_neq (a b : F) : qeqb a b = false -> a <> b.
Proof.
  unfold qeqb. intros H E. subst. rewrite Qeq_bool_refl in H. discriminate.
Qed.

Lemma update_hyps_b_true (Pu P : csc F) : update_hyps_b Pu P = true ->
  wf_csc Pu = true /\ wf_csc P = true /\ nrows P = nrows Pu /\ ncols P = ncols Pu /\ nrows P = ncols P /\
  sorted_cols P = true /\ same_pattern (triu P) Pu.
Proof.
  unfold update_hyps_b. rewrite !andb_true_iff. intros [[[[[[H1 H2] H3] H4] H5] H6] H7].
  apply Nat.eqb_eq in H3, H4, H5. apply same_patternb_true in H7. tauto.
Qed.

(* ================= upper-only storage is a fixed point of triu ================= *)
Lemma firstn_seg {A} (l : list A) lo hi : lo <= hi -> firstn lo l ++ seg l lo hi = firstn hi l.
Proof.
  intros H. unfold seg. destruct (Nat.le_gt_cases lo (length l)) as [Hl|Hl].
  - rewrite <- (firstn_skipn lo l) at 3. rewrite firstn_app, firstn_firstn, firstn_length.
    rewrite Nat.min_r by lia. rewrite (Nat.min_l lo (length l)) by lia. reflexivity.
  - rewrite (skipn_all2 (n := lo)) by lia. rewrite firstn_nil, app_nil_r.
    now rewrite !firstn_all2 by lia.
Qed.

Lemma filter_all {A} (f : A -> bool) : forall l, (forall x, In x l -> f x = true) -> filter f l = l.
Proof.
  induction l as [|a l IH]; intros H; [reflexivity|]. simpl. rewrite (H a) by now left.
  f_equal. apply IH. intros x Hx. apply H. now right.
Qed.

Section UpperFixed.
Context {V : Type}.
Variable A : csc V.
Hypothesis Hwf : wf_csc A = true.
Hypothesis Hup : upper_only A = true.

Lemma upper_only_triu_col j : j < ncols A -> triu_col A j = col_entries A j.
Proof.
  intros Hj. unfold triu_col. apply takew_all. intros e He.
  assert (Hin : In (fst e) (map fst (col_entries A j))) by (now apply in_map).
  rewrite col_entries_rows in Hin by exact Hwf. unfold seg in Hin.
  rewrite <- (map_nth_seq 0) in Hin by (apply col_bounds; exact Hwf).
  apply in_map_iff in Hin. destruct Hin as (p & Hp & Hps).
  unfold upper_only in Hup. rewrite forallb_forall in Hup.
  assert (Hjs : In j (seq 0 (ncols A))) by (apply in_seq; lia).
  specialize (Hup j Hjs). rewrite forallb_forall in Hup. specialize (Hup p Hps).
  unfold keep_upper. now rewrite <- Hp.
Qed.

Lemma upper_only_concat_prefix : forall m, m <= ncols A ->
  concat (firstn m (triu_cols A)) = firstn (nth m (colptr A) 0) (combine (rowind A) (vals A)).
Proof.
  pose proof (wf_csc_props A Hwf) as Hp.
  induction m as [|m IH]; intros Hm.
  - now rewrite (wfp_first A Hp).
  - rewrite concat_firstn_S by (rewrite triu_cols_length; lia). rewrite IH by lia.
    rewrite nth_triu_cols, upper_only_triu_col by lia. unfold col_entries.
    apply firstn_seg. apply (wfp_mono A Hp); lia.
Qed.

Lemma upper_only_triu_fixed : triu A = A.
Proof.
  pose proof (wf_csc_props A Hwf) as Hp.
  assert (Hlen : length (combine (rowind A) (vals A)) = length (rowind A))
    by (rewrite combine_length, (wfp_vals A Hp); lia).
  assert (Hall : concat (triu_cols A) = combine (rowind A) (vals A)).
  { rewrite <- (firstn_all (triu_cols A)), triu_cols_length, upper_only_concat_prefix by lia.
    rewrite (wfp_last A Hp). apply firstn_all2. lia. }
  assert (Hcp : cumsum 0 (map (@length _) (triu_cols A)) = colptr A).
  { apply (nth_ext _ _ 0 0).
    - now rewrite cumsum_length, map_length, triu_cols_length, (wfp_len A Hp).
    - intros j Hj. rewrite cumsum_length, map_length, triu_cols_length in Hj.
      rewrite nth_cumsum by (rewrite triu_cols_length; lia). unfold offs.
      rewrite upper_only_concat_prefix by lia. rewrite firstn_length, Hlen.
      pose proof (wfp_bound A Hp j). lia. }
  pose proof (wfp_vals A Hp) as Hv.
  destruct A as [nr nc cp ri vx]. unfold triu. cbv zeta. simpl in *.
  rewrite Hcp, Hall. f_equal.
  - apply map_fst_combine. lia.
  - apply map_snd_combine. lia.
Qed.

End UpperFixed.

Lemma upper_first_triu_filter {V} (A : csc V) : upper_first_cols A = true -> triu A = triu_filter A.
Proof.
  intros Hu. assert (Hc : triu_cols A = triu_filter_cols A).
  { unfold triu_cols, triu_filter_cols. apply map_ext_in. intros j Hj. apply in_seq in Hj.
    apply upper_first_col; [exact Hu|lia]. }
  unfold triu, triu_filter. cbv zeta. now rewrite Hc.
Qed.

Theorem setup_reads_upper_only_sparse_proof : forall P : csc F,
  wf_csc P = true ->
  nrows (triu P) = nrows P /\ ncols (triu P) = ncols P /\
  wf_csc (triu P) = true /\
  upper_only (triu P) = true /\
  (sorted_cols P = true -> upper_first_cols P = true) /\
  (upper_first_cols P = true -> triu P = triu_filter P) /\
  (upper_first_cols P = true -> forall i j, csc_get (triu P) i j = if i <=? j then csc_get P i j else 0%Qc) /\
  triu (triu P) = triu P /\
  (upper_only P = true -> triu P = P) /\
  (sorted_cols P = true -> sorted_cols (triu P) = true).
Proof.
  intros P H. destruct (setup_reads_upper_only_sparse_core P H) as (H1 & H2 & H3 & H4 & H5 & H6 & H7).
  do 4 (split; [assumption|]).
  split; [intros Hs; now apply sorted_upper_first|].
  split; [apply upper_first_triu_filter|].
  split; [exact H5|]. split; [exact H6|]. split; [|exact H7].
  intros Hu. now apply upper_only_triu_fixed.
Qed.

(* ================= witnesses ================= *)
(* 4'. setup on UNSORTED columns: the iterator of triangularView<Upper> stops at the first entry below the diagonal.
   2 x 2, both columns stored as (row 1, row 0) / (row 0, row 1): column 0 = [(1,7); (0,2)] is dropped entirely.
   This is the run of harness/drv_updatep.cpp on the real SparseSolver: P_utri = colptr [0,0,2], rowind [0,1], vals [5,6]. *)
Definition us_P : csc F := mkcsc 2 2 [0; 2; 4] [1; 0; 0; 1] [qofZ 7; qofZ 2; qofZ 5; qofZ 6].
Definition us_T : csc F := mkcsc 2 2 [0; 0; 2] [0; 1] [qofZ 5; qofZ 6].

Theorem setup_reads_upper_only_sparse_unsorted_refuted_proof :
  wf_csc us_P = true /\ sorted_cols us_P = false /\ upper_first_cols us_P = false /\
  triu us_P = us_T /\
  triu_filter us_P = mkcsc 2 2 [0; 1; 3] [0; 0; 1] [qofZ 2; qofZ 5; qofZ 6] /\
  csc_get (triu us_P) 0 0 = 0%Qc /\ csc_get us_P 0 0 = qofZ 2 /\
  csc_get (triu us_P) 0 0 <> csc_get us_P 0 0.
Proof.
  split; [vm_compute; reflexivity|]. split; [vm_compute; reflexivity|]. split; [vm_compute; reflexivity|].
  split; [vm_compute; reflexivity|]. split; [vm_compute; reflexivity|].
  split; [apply qeqb_true_eq; vm_compute; reflexivity|].
  split; [apply qeqb_true_eq; vm_compute; reflexivity|].
  apply qeqb_false_neq. vm_compute. reflexivity.
Qed.

(* 3. update on an unsorted caller matrix: 2 x 2, column 0 stored with the strictly-lower entry FIRST; the stored P_utri
   has the pattern of the upper triangle (as left by a setup with sorted storage) *)
Definition cx_P : csc F := mkcsc 2 2 [0; 2; 3] [1; 0; 1] [qofZ 7; qofZ 2; qofZ 5].
Definition cx_Pu : csc F := mkcsc 2 2 [0; 1; 2] [0; 1] [qofZ 0; qofZ 0].
Definition cx_Pu' : csc F := mkcsc 2 2 [0; 1; 2] [0; 1] [qofZ 7; qofZ 5].

Theorem update_reads_upper_only_sparse_unsorted_refuted_proof :
  wf_csc cx_Pu = true /\ wf_csc cx_P = true /\
  nrows cx_P = nrows cx_Pu /\ ncols cx_P = ncols cx_Pu /\ nrows cx_P = ncols cx_P /\
  same_pattern (triu_filter cx_P) cx_Pu /\
  sorted_cols cx_P = false /\ upper_first_cols cx_P = false /\
  update_P_check cx_Pu cx_P = true /\
  update_P_copy cx_Pu cx_P = Ok cx_Pu' /\
  same_pattern cx_Pu' cx_Pu /\
  csc_get cx_Pu' 0 0 = qofZ 7 /\ csc_get cx_P 0 0 = qofZ 2 /\
  csc_get cx_Pu' 0 0 <> csc_get cx_P 0 0.
Proof.
  split; [vm_compute; reflexivity|]. split; [vm_compute; reflexivity|].
  split; [reflexivity|]. split; [reflexivity|]. split; [reflexivity|].
  split; [repeat split; vm_compute; reflexivity|].
  split; [vm_compute; reflexivity|]. split; [vm_compute; reflexivity|]. split; [vm_compute; reflexivity|].
  split; [reflexivity|].
  split; [repeat split; reflexivity|].
  split; [apply qeqb_true_eq; vm_compute; reflexivity|].
  split; [apply qeqb_true_eq; vm_compute; reflexivity|].
  apply qeqb_false_neq. vm_compute. reflexivity.
Qed.

(* even when the stored pattern is the one the code itself produces from the unsorted matrix (same_pattern (triu P) Pu),
   the copy reproduces triu P, whose entry (0,0) is missing *)
Theorem update_reads_upper_only_sparse_needs_sorted_proof :
  ~ (forall Pu P : csc F,
       wf_csc Pu = true -> wf_csc P = true ->
       nrows P = nrows Pu -> ncols P = ncols Pu -> nrows P = ncols P ->
       same_pattern (triu P) Pu ->
       exists Pu' : csc F,
         update_P_copy Pu P = Ok Pu' /\
         (forall i j, i <= j -> j < ncols P -> csc_get Pu' i j = csc_get P i j)).
Proof.
  intros H.
  assert (H2 : wf_csc cx_P = true) by (vm_compute; reflexivity).
  assert (H1 : wf_csc (triu cx_P) = true) by (now apply wf_triu).
  destruct (H (triu cx_P) cx_P H1 H2 eq_refl eq_refl eq_refl (same_pattern_refl _)) as (Pu' & Hc & Hg).
  rewrite (update_P_copy_is_triu_any (triu cx_P) cx_P H1 H2 (same_pattern_refl _)) in Hc. injection Hc as <-.
  assert (Hne : csc_get (triu cx_P) 0 0 <> csc_get cx_P 0 0) by (apply qeqb_false_neq; vm_compute; reflexivity).
  apply Hne. apply Hg; [lia | vm_compute; lia].
Qed.

(* 5. one sorted 3 x 3 matrix [4 1 0; 1 5 2; 0 2 6] in three storages, one stored pattern *)
Definition ex_P_full : csc F :=
  mkcsc 3 3 [0; 2; 5; 7] [0; 1; 0; 1; 2; 1; 2]
        [qofZ 4; qofZ 1; qofZ 1; qofZ 5; qofZ 2; qofZ 2; qofZ 6].
Definition ex_P_upper : csc F :=
  mkcsc 3 3 [0; 1; 3; 5] [0; 0; 1; 1; 2]
        [qofZ 4; qofZ 1; qofZ 5; qofZ 2; qofZ 6].
Definition ex_P_garbage : csc F :=
  mkcsc 3 3 [0; 3; 6; 8] [0; 1; 2; 0; 1; 2; 1; 2]
        [qofZ 4; qofZ 99; qofZ (-7); qofZ 1; qofZ 5; qofZ 42; qofZ 2; qofZ 6].
(* the stored P_utri before the update: pattern of the upper triangle, stale values *)
Definition ex_Pu : csc F :=
  mkcsc 3 3 [0; 1; 3; 5] [0; 0; 1; 1; 2]
        [qofZ 11; qofZ 12; qofZ 13; qofZ 14; qofZ 15].
