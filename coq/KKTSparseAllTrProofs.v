(* KKTSparseAllTrProofs.v -- two facts about transpose_no_alloc (CSC.v) that the KKT_ALL_ELIMINATED proofs need beyond
   C14_transpose_no_alloc_spec (sizes, outer index, values):
     tr_wf          the result is a well-formed compressed matrix (inner indices in range, lengths kept);
     retranspose_rows  transposing a matrix with the same pattern into the RESULT of an earlier transposition leaves the inner
                    indices unchanged (the cached A / G of update_data keep their pattern). *)
From PIQP Require Import Base CSC C14LemmasProofs CSCProofs TransposeProofs PermuteProofs LinAlg KKTSparseFull KKTSparseFullProofs.
Local Open Scope nat_scope.

Lemma rres_ok_inv {S T} (R : S -> T -> Prop) s t : rres R (Ok s) (Ok t) -> R s t.
Proof. intros H. inversion H. auto. Qed.

Lemma foldM_pres {A S} (Q : S -> Prop) (f : S -> A -> res S) l :
  (forall a s s', In a l -> f s a = Ok s' -> Q s -> Q s') -> forall s s', foldM f l s = Ok s' -> Q s -> Q s'.
Proof.
  induction l as [|a l IH]; intros Hs s s' E HQ; cbn [foldM] in E.
  - now injection E as <-.
  - apply bind_ok in E as (s1 & E1 & E2). apply (IH (fun a0 s0 s0' Hin => Hs a0 s0 s0' (or_intror Hin)) s1 s'); auto.
    apply (Hs a s s1); auto. now left.
Qed.

Lemma Forall_lset {A} (Pd : A -> Prop) l i x : Forall Pd l -> Pd x -> Forall Pd (lset l i x).
Proof.
  revert i. induction l as [|a l IH]; intros i Hl Hx; [destruct i; constructor|].
  inversion Hl; subst. destruct i; cbn [lset]; constructor; auto.
Qed.

(* the main loop of transpose_no_alloc *)
Definition tr_loop {V} (A : csc V) (st : list nat * list nat * list V) : res (list nat * list nat * list V) :=
  for_range 0 (ncols A) (fun j st =>
      do lo <- get (colptr A) j ;; do kk <- get (colptr A) (S j) ;;
      for_range lo kk (fun k '(cp, ci, cx) =>
        do i <- get (rowind A) k ;;
        do q <- get cp i ;; do cp <- upd cp i (S q) ;;
        do ci <- upd ci q j ;;
        do v <- get (vals A) k ;;
        do cx <- upd cx q v ;;
        Ok (cp, ci, cx)) st) st.

Lemma transpose_unfold {V} (A C C' : csc V) : transpose_no_alloc A C = Ok C' ->
  exists cp ci cx, tr_loop A (colptr C, rowind C, vals C) = Ok (cp, ci, cx) /\ rowind C' = ci /\ vals C' = cx /\
                   nrows C' = nrows C /\ ncols C' = ncols C.
Proof.
  unfold transpose_no_alloc. intros E. apply bind_ok in E as ([[cp ci] cx] & E1 & E2).
  apply bind_ok in E2 as (cp1 & _ & E2). apply bind_ok in E2 as (cp2 & _ & E2). injection E2 as <-.
  exists cp, ci, cx. split; [exact E1|]. cbn. auto.
Qed.

Lemma tr_loop_pres {V} (Pd : nat -> Prop) (A : csc V) cp0 ci0 cx0 cp ci cx : tr_loop A (cp0, ci0, cx0) = Ok (cp, ci, cx) ->
  (forall j, j < ncols A -> Pd j) -> Forall Pd ci0 ->
  Forall Pd ci /\ length ci = length ci0 /\ length cx = length cx0.
Proof.
  intros E HP H0. unfold tr_loop, for_range in E.
  set (Q := fun st : list nat * list nat * list V => let '(_, ci, cx) := st in
              Forall Pd ci /\ length ci = length ci0 /\ length cx = length cx0).
  assert (HQ0 : Q (cp0, ci0, cx0)) by (cbn; auto).
  refine (foldM_pres Q _ _ _ _ _ E HQ0).
  intros j s s' Hj Es Hs. apply in_seq in Hj.
  apply bind_ok in Es as (lo & _ & Es). apply bind_ok in Es as (kk & _ & Es).
  refine (foldM_pres Q _ _ _ _ _ Es Hs).
  intros k [[cpa cia] cxa] s2 _ Ek (Ha & Hb & Hc).
  apply bind_ok in Ek as (i & _ & Ek). apply bind_ok in Ek as (q & _ & Ek). apply bind_ok in Ek as (cpb & _ & Ek).
  apply bind_ok in Ek as (cib & Eci & Ek). apply bind_ok in Ek as (v & _ & Ek). apply bind_ok in Ek as (cxb & Ecx & Ek).
  injection Ek as <-. apply upd_ok_inv in Eci as [Hq ->]. apply upd_ok_inv in Ecx as [Hq' ->].
  cbn. rewrite !lset_length. split; [apply Forall_lset; auto; apply HP; lia|auto].
Qed.

(* well-formedness of the result, given a well-formed outer index of the buffer (it is restored) *)
Theorem tr_wf (A C C' : csc F) : transpose_no_alloc A C = Ok C' -> colptr C' = colptr C ->
  nrows C = ncols A -> wf_csc C = true -> wf_csc C' = true.
Proof.
  intros E Ecp Hr Hw. destruct (transpose_unfold A C C' E) as (cp & ci & cx & El & Er & Ev & Hn & Hc).
  destruct (tr_loop_pres (fun r => r < ncols A) A _ _ _ _ _ _ El) as (F1 & F2 & F3); [auto| |].
  { apply Forall_forall. intros r Hin. rewrite <- Hr. apply (In_nth _ _ 0) in Hin as (q & Hq & <-). now apply wf_rows. }
  unfold wf_csc in *. rewrite Ecp, Hn, Hc, Er, Ev, F2, F3. rewrite !andb_true_iff in *.
  destruct Hw as (((((W1 & W2) & W3) & W4) & W5) & W6). repeat split; auto.
  apply forallb_forall. intros r Hin. apply Nat.ltb_lt. rewrite Hr. rewrite Forall_forall in F1. now apply F1.
Qed.

(* two runs on the same pattern; the second one writes into the result of the first *)
Section Retranspose.
Variables (A0 A1 : csc F) (fin : list nat).
Hypothesis Hcp : colptr A1 = colptr A0.
Hypothesis Hri : rowind A1 = rowind A0.
Hypothesis Hnc : ncols A1 = ncols A0.
Hypothesis Hlv : length (vals A1) = length (vals A0).

Definition RR (s t : list nat * list nat * list F) : Prop :=
  let '(cp0, ci0, cx0) := s in let '(cp1, ci1, cx1) := t in
  cp1 = cp0 /\ length ci1 = length ci0 /\ length cx1 = length cx0 /\
  forall q, nth q ci1 0 = nth q ci0 0 \/ nth q ci1 0 = nth q fin 0.

Lemma get_len_rres {X} (l0 l1 : list F) k (f g : F -> res X) (R : X -> X -> Prop) : length l1 = length l0 ->
  (forall v0 v1, rres R (f v0) (g v1)) -> rres R (bind (get l0 k) f) (bind (get l1 k) g).
Proof.
  intros L H. unfold get. destruct (nth_error l0 k) eqn:E0, (nth_error l1 k) eqn:E1; cbn [bind]; auto.
  - apply nth_error_None in E1. assert (nth_error l0 k <> None) by congruence. apply nth_error_Some in H0. lia.
  - apply nth_error_None in E0. assert (nth_error l1 k <> None) by congruence. apply nth_error_Some in H0. lia.
  - constructor.
Qed.
Lemma upd_len_rres {X Y} (l0 l1 : list Y) q (x0 x1 : Y) (f g : list Y -> res X) (R : X -> X -> Prop) : length l1 = length l0 ->
  (q < length l0 -> rres R (f (lset l0 q x0)) (g (lset l1 q x1))) -> rres R (bind (upd l0 q x0) f) (bind (upd l1 q x1) g).
Proof.
  intros L H. destruct (Nat.lt_ge_cases q (length l0)).
  - rewrite !upd_lset by lia. cbn [bind]. auto.
  - destruct (upd l0 q x0) eqn:E0; [apply upd_ok_inv in E0; lia|]. destruct (upd l1 q x1) eqn:E1; [apply upd_ok_inv in E1; lia|].
    apply upd_err_ge in E0 as [_ ->]. apply upd_err_ge in E1 as [_ ->]. cbn [bind]. constructor.
Qed.

Lemma tr_loop_rres s t : RR s t -> rres RR (tr_loop A0 s) (tr_loop A1 t).
Proof.
  intros H. unfold tr_loop, for_range. rewrite Hnc, Hcp, Hri. apply foldM_rres; auto.
  intros j s1 t1 H1.
  destruct (get (colptr A0) j) as [lo|]; cbn [bind]; [|constructor].
  destruct (get (colptr A0) (S j)) as [kk|]; cbn [bind]; [|constructor].
  apply foldM_rres; auto.
  intros k [[cp0 ci0] cx0] [[cp1 ci1] cx1] (-> & L1 & L2 & Hq).
  destruct (get (rowind A0) k) as [i|]; cbn [bind]; [|constructor].
  destruct (get cp0 i) as [q|]; cbn [bind]; [|constructor].
  destruct (upd cp0 i (S q)) as [cpn|]; cbn [bind]; [|constructor].
  apply upd_len_rres; auto. intros Hlt.
  apply get_len_rres; auto. intros v0 v1.
  apply upd_len_rres; auto. intros Hlt2. constructor.
  split; auto. rewrite !lset_length. split; auto. split; auto.
  intros q'. rewrite !nth_lset by lia. destruct (q' =? q); auto.
Qed.

Theorem retranspose_rows (C0 A A' : csc F) :
  transpose_no_alloc A0 C0 = Ok A -> rowind A = fin -> colptr A = colptr C0 ->
  transpose_no_alloc A1 A = Ok A' -> rowind A' = rowind A.
Proof.
  intros E0 Efin Ecp E1.
  destruct (transpose_unfold A0 C0 A E0) as (cp0 & ci0 & cx0 & El0 & Er0 & Ev0 & _).
  destruct (transpose_unfold A1 A A' E1) as (cp1 & ci1 & cx1 & El1 & Er1 & Ev1 & _).
  destruct (tr_loop_pres (fun _ => True) A0 _ _ _ _ _ _ El0) as (_ & F2 & F3); [auto|apply Forall_forall; auto|].
  assert (HR : RR (colptr C0, rowind C0, vals C0) (colptr A, rowind A, vals A)).
  { cbn. split; auto. rewrite Er0, Ev0. split; auto. split; auto. intros q. right. now rewrite <- Efin, Er0. }
  pose proof (tr_loop_rres _ _ HR) as HH. rewrite El0, El1 in HH. apply rres_ok_inv in HH.
  destruct HH as (_ & L1 & _ & Hq). rewrite Er1, Er0.
  apply (nth_ext _ _ 0 0); [exact L1|]. intros q _. destruct (Hq q) as [H|H]; [exact H|]. rewrite H, <- Efin, Er0. reflexivity.
Qed.

(* two transpositions of matrices with the same pattern into buffers with the same index part give the same inner indices *)
Theorem transpose_rows_same (C0 C1 X0 X1 : csc F) :
  transpose_no_alloc A0 C0 = Ok X0 -> rowind X0 = fin -> transpose_no_alloc A1 C1 = Ok X1 ->
  colptr C1 = colptr C0 -> rowind C1 = rowind C0 -> length (vals C1) = length (vals C0) -> rowind X1 = rowind X0.
Proof.
  intros E0 Efin E1 Hc Hr Hl.
  destruct (transpose_unfold A0 C0 X0 E0) as (cp0 & ci0 & cx0 & El0 & Er0 & Ev0 & _).
  destruct (transpose_unfold A1 C1 X1 E1) as (cp1 & ci1 & cx1 & El1 & Er1 & Ev1 & _).
  assert (HR : RR (colptr C0, rowind C0, vals C0) (colptr C1, rowind C1, vals C1)).
  { cbn. rewrite Hc, Hr. split; auto. }
  pose proof (tr_loop_rres _ _ HR) as HH. rewrite El0, El1 in HH. apply rres_ok_inv in HH.
  destruct HH as (_ & L1 & _ & Hq). rewrite Er1, Er0.
  apply (nth_ext _ _ 0 0); [exact L1|]. intros q _. destruct (Hq q) as [H|H]; [exact H|]. rewrite H, <- Efin, Er0. reflexivity.
Qed.
End Retranspose.

(* the freshly allocated buffer of C = A.transpose() is well formed *)
Lemma nsum_counts_eq l m : Forall (fun r => r < m) l -> nsum (map (cnt l) (seq 0 m)) = length l.
Proof.
  induction 1 as [|a l Ha Hl IH]; [apply nsum_counts_nil|].
  rewrite nsum_counts_cons, IH. cbn [length]. destruct (Nat.ltb_spec a m); lia.
Qed.

Lemma tr_buffer_wf (A : csc F) : wf_csc A = true ->
  wf_csc (mkcsc (ncols A) (nrows A) (transpose_colptr A) (repeat 0 (length (rowind A))) (repeat (0%Qc : F) (length (rowind A)))) = true.
Proof.
  intros Hw. assert (Hlen : length (count_rows (nrows A) (rowind A)) = nrows A) by (unfold count_rows; now rewrite map_length, seq_length).
  unfold wf_csc. cbn [colptr ncols nrows rowind vals]. rewrite !repeat_length. rewrite !andb_true_iff. repeat split.
  - apply Nat.eqb_eq. unfold transpose_colptr. now rewrite cumsum_length, Hlen.
  - apply Nat.eqb_eq. unfold transpose_colptr. rewrite (nth_indep _ 1 0) by (rewrite cumsum_length; lia). apply cumsum_0.
  - apply nondecb_of_steps. intros i Hi. unfold transpose_colptr in *. rewrite cumsum_length, Hlen in Hi.
    rewrite cumsum_S by lia. lia.
  - apply Nat.eqb_eq. unfold transpose_colptr. rewrite <- Hlen at 1. rewrite cumsum_last. cbn [Nat.add].
    unfold count_rows. change (fun i => length (filter (Nat.eqb i) (rowind A))) with (cnt (rowind A)).
    apply nsum_counts_eq. apply Forall_forall. intros r Hin. apply (In_nth _ _ 0) in Hin as (q & Hq & <-). now apply wf_rows.
  - apply Nat.eqb_refl.
  - apply forallb_forall. intros r Hin. pose proof Hin as Hin2. apply repeat_spec in Hin. subst r. apply Nat.ltb_lt.
    destruct (ncols A) eqn:En; [|lia]. exfalso.
    pose proof (wf_cp_last A Hw) as HL. rewrite En in HL. rewrite (wf_cp0 A Hw) in HL.
    destruct (rowind A); [inversion Hin2|discriminate].
Qed.
