(* Store.v -- C19: the solver API over an explicit model of the CALLER's memory.

   The caller's matrices and vectors live in a store (buffer id -> content, None = freed / never allocated).
   An API call receives buffer ids, READS the store at call time into values and then runs the value-level
   function of API.v (setup / update / solve).  The store is handed back untouched.  Between API calls the
   caller may do anything to the store (overwrite, free, reallocate): that is the op [OMutate f] with an
   ARBITRARY function f : Store -> Store.

   IMPORTANT (what this file is and is not): in this model "the library keeps no reference into caller memory
   and never writes to it" holds BY CONSTRUCTION -- the solver state [Solver] contains values only and
   [api_call] returns the store it was given.  The theorems of StoreProofs.v therefore formalise the CLAIM of
   C19 precisely; that the C++ code behaves like this value-passing model (no retained Eigen::Map/Ref, no
   const_cast write into an input) is established by the implementation-side twin check harness/drv_alias.cpp
   (caller buffers checksummed around every call, scribbled / freed after every call versus an untouched twin,
   results compared bit-for-bit, one variant under AddressSanitizer).  Definitions only. *)
From PIQP Require Import Base Data Bounds PrecondDense KKTDense IPM API.

(* content of one caller buffer: a dense matrix (list of columns), a vector, or a bound vector with +-inf *)
Inductive Val := VMat (M : Mat) | VVec (v : Vec) | VExt (l : list ext).

Definition BufId := nat.
Definition Store := BufId -> option Val.

(* the buffers passed to setup / update; None = argument not given (nullopt / NULL) *)
Record BlockIds := mkIds {
  id_P : option BufId; id_c : option BufId; id_A : option BufId; id_b : option BufId;
  id_G : option BufId; id_h : option BufId; id_lb : option BufId; id_ub : option BufId
}.

Definition ids_of (bi : BlockIds) : list BufId :=
  let o (x : option BufId) := match x with Some i => [i] | None => [] end in
  o (id_P bi) ++ o (id_c bi) ++ o (id_A bi) ++ o (id_b bi) ++ o (id_G bi) ++ o (id_h bi) ++ o (id_lb bi) ++ o (id_ub bi).

(* reading a dangling / freed / wrongly typed buffer is an error of the CALLER: the call is rejected *)
Definition read_mat (st : Store) (i : option BufId) : res (option Mat) :=
  match i with
  | None => Ok None
  | Some k => match st k with Some (VMat M) => Ok (Some M) | _ => Err Index end
  end.
Definition read_vec (st : Store) (i : option BufId) : res (option Vec) :=
  match i with
  | None => Ok None
  | Some k => match st k with Some (VVec v) => Ok (Some v) | _ => Err Index end
  end.
Definition read_ext (st : Store) (i : option BufId) : res (option (list ext)) :=
  match i with
  | None => Ok None
  | Some k => match st k with Some (VExt v) => Ok (Some v) | _ => Err Index end
  end.

Definition read_blocks (st : Store) (bi : BlockIds) : res Blocks :=
  do P <- read_mat st (id_P bi) ;; do c <- read_vec st (id_c bi) ;;
  do A <- read_mat st (id_A bi) ;; do b <- read_vec st (id_b bi) ;;
  do G <- read_mat st (id_G bi) ;; do h <- read_ext st (id_h bi) ;;
  do lb <- read_ext st (id_lb bi) ;; do ub <- read_ext st (id_ub bi) ;;
  Ok {| b_P := P; b_c := c; b_A := A; b_b := b; b_G := G; b_h := h; b_lb := lb; b_ub := ub |}.

(* the three API entry points *)
Inductive Call :=
| CSetup (St : Settings) (n p m : nat) (bi : BlockIds)
| CUpdate (bi : BlockIds) (reuse : bool)
| CSolve (fault : nat -> bool).

Definition call_ids (c : Call) : list BufId :=
  match c with CSetup _ _ _ _ bi => ids_of bi | CUpdate bi _ => ids_of bi | CSolve _ => [] end.

(* what a call gives back to the caller: the complete new solver object (every later observable -- result vectors,
   info, status of later solves -- is a function of it) and, for solve, the status *)
Definition Output := res (Solver * option Status).

Section StoreAPI.
Variable K : Consts.
Variable ident : bool.
Variable sparse_pc : bool.      (* API.v: the Ruiz preconditioner of the sparse backend *)
Variable junk : F.
Variable cp_bits : Z.

(* value-level call, after the arguments have been read *)
Definition call_values (sv : option Solver) (c : Call) (B : Blocks) : Output :=
  match c, sv with
  | CSetup St n p m _, _ => do s <- setup K ident sparse_pc junk St n p m B ;; Ok (s, None)
  | CUpdate _ reuse, Some s0 => do s <- update K sparse_pc s0 B reuse ;; Ok (s, None)
  | CSolve fault, Some s0 => do '(s, st) <- solve K junk cp_bits fault s0 ;; Ok (s, Some st)
  | _, None => Err Shape                         (* "Solver not setup yet" *)
  end.

Definition no_blocks : Blocks :=
  {| b_P := None; b_c := None; b_A := None; b_b := None; b_G := None; b_h := None; b_lb := None; b_ub := None |}.

Definition call_blocks (st : Store) (c : Call) : res Blocks :=
  match c with
  | CSetup _ _ _ _ bi => read_blocks st bi
  | CUpdate bi _ => read_blocks st bi
  | CSolve _ => Ok no_blocks
  end.

(* one API call: (store after, output).  The store component is the argument [st] itself. *)
Definition api_call (st : Store) (sv : option Solver) (c : Call) : Store * Output :=
  (st, do B <- call_blocks st c ;; call_values sv c B).

(* a failed call leaves the solver object as it was *)
Definition next_solver (sv : option Solver) (o : Output) : option Solver :=
  match o with Ok (s, _) => Some s | Err _ => sv end.

(* histories: API calls interleaved with arbitrary actions of the caller on its own memory *)
Inductive Op :=
| OCall (c : Call)
| OMutate (f : Store -> Store).

Fixpoint run (st : Store) (sv : option Solver) (h : list Op) : Store * option Solver * list Output :=
  match h with
  | [] => (st, sv, [])
  | OMutate f :: t => run (f st) sv t
  | OCall c :: t =>
      let '(st', o) := api_call st sv c in
      let '(st'', sv'', os) := run st' (next_solver sv o) t in
      (st'', sv'', o :: os)
  end.

Definition outputs (st : Store) (sv : option Solver) (h : list Op) : list Output := snd (run st sv h).
Definition final_store (st : Store) (sv : option Solver) (h : list Op) : Store := fst (fst (run st sv h)).

(* the caller's own writes, nothing else *)
Fixpoint caller_writes (st : Store) (h : list Op) : Store :=
  match h with
  | [] => st
  | OMutate f :: t => caller_writes (f st) t
  | OCall _ :: t => caller_writes st t
  end.

Fixpoint erase_mutations (h : list Op) : list Op :=
  match h with
  | [] => []
  | OMutate _ :: t => erase_mutations t
  | OCall c :: t => OCall c :: erase_mutations t
  end.

End StoreAPI.

(* two stores agree on a set of buffers *)
Definition agree_on (ids : list BufId) (s1 s2 : Store) : Prop := forall i, In i ids -> s1 i = s2 i.

(* two (store, history) pairs that make the same API calls, with arbitrary caller actions in between on either side,
   such that AT THE TIME OF EACH CALL the two stores agree on the buffers passed to that call *)
Inductive sim : Store -> list Op -> Store -> list Op -> Prop :=
| sim_nil s1 s2 : sim s1 [] s2 []
| sim_mut_l f s1 h1 s2 h2 : sim (f s1) h1 s2 h2 -> sim s1 (OMutate f :: h1) s2 h2
| sim_mut_r f s1 h1 s2 h2 : sim s1 h1 (f s2) h2 -> sim s1 h1 s2 (OMutate f :: h2)
| sim_call c s1 h1 s2 h2 : agree_on (call_ids c) s1 s2 -> sim s1 h1 s2 h2 -> sim s1 (OCall c :: h1) s2 (OCall c :: h2).

(* convenient caller actions *)
Definition free_buf (i : BufId) : Store -> Store := fun s k => if Nat.eqb k i then None else s k.
Definition write_buf (i : BufId) (v : Val) : Store -> Store := fun s k => if Nat.eqb k i then Some v else s k.
Definition free_all : Store -> Store := fun _ _ => None.
