(* IPM.v -- solver.hpp : update_nr_residuals, the *_inf_* norms, solve_impl (dense back end),
   unscale_results, restore_box_dual, solve(). *)
From PIQP Require Import Base Data Bounds PrecondDense KKTDense.
From RecordUpdate Require Import RecordSet.
Import RecordSetNotations.
Local Open Scope Qc_scope.

#[export] Instance etaInfo : Settable _ := settable! mkInfo
  <i_status; i_iter; i_rho; i_delta; i_mu; i_sigma; i_primal_step; i_dual_step;
   i_primal_inf; i_primal_rel_inf; i_dual_inf; i_dual_rel_inf;
   i_primal_obj; i_dual_obj; i_duality_gap; i_duality_gap_rel;
   i_factor_retires; i_reg_limit; i_no_primal_update; i_no_dual_update>.

(* the iterate (scaled space); box vectors are the packed prefixes of length n_lb / n_ub *)
Record Iterate := mkIt {
  x : Vec; y : Vec; z : Vec; z_lb : Vec; z_ub : Vec; s : Vec; s_lb : Vec; s_ub : Vec;
  zeta : Vec; lambda : Vec; nu : Vec; nu_lb : Vec; nu_ub : Vec
}.
#[export] Instance etaIt : Settable _ := settable! mkIt
  <x; y; z; z_lb; z_ub; s; s_lb; s_ub; zeta; lambda; nu; nu_lb; nu_ub>.

Record Resid := mkRes { rx_nr : Vec; ry_nr : Vec; rz_nr : Vec; rz_lb_nr : Vec; rz_ub_nr : Vec }.

Section Residuals.
Variable d : Data.
Variable pc : Precond.

Definition nmax (a : F) (v : Vec) : F := qmax a (norm_inf v).

(* update_nr_residuals: returns the non-regularised residuals and the six info fields it assigns *)
Definition update_nr_residuals (K : Consts) (it : Iterate) (inf : Info) : res (Resid * Info) :=
  let n := d_n d in
  let lbs := head (d_nlb d) (d_lb_scaling d) in let ubs := head (d_nub d) (d_ub_scaling d) in
  let Px := Psym_mul d (x it) in
  let rx0 := vneg Px in
  let dri0 := norm_inf (unscale_dual_res pc rx0) in
  let xPx := - dot (x it) rx0 in
  let t_c := dot (d_c d) (x it) in
  let t_b := dot (d_b d) (y it) in
  let t_h := dot (d_h d) (z it) in
  let t_lb := dot (d_lb_n d) (z_lb it) in
  let t_ub := dot (d_ub d) (z_ub it) in
  let pobj := k_half K * xPx + t_c in
  let dobj := - (k_half K) * xPx - t_b - t_h - t_lb - t_ub in
  let gap_rel := fold_left (fun a t => qmax a (unscale_cost pc (qabs t))) [t_c; t_b; t_h; t_lb; t_ub] (unscale_cost pc (qabs xPx)) in
  let gap := qabs (pobj - dobj) in
  let rx1 := vsub rx0 (d_c d) in
  let dri1 := nmax dri0 (unscale_dual_res pc (d_c d)) in
  let t0 := vadd (mat_vec n (d_AT d) (y it)) (mat_vec n (d_GT d) (z it)) in
  do t1 <- scatter_with Qcminus t0 (d_lb_idx d) (vmul lbs (z_lb it)) ;;
  do t2 <- scatter_with Qcplus t1 (d_ub_idx d) (vmul ubs (z_ub it)) ;;
  let dri2 := nmax dri1 (unscale_dual_res pc t2) in
  let rx2 := vsub rx1 t2 in
  let ry0 := vneg (matT_vec (d_AT d) (x it)) in
  let pri0 := norm_inf (unscale_primal_res_eq pc ry0) in
  let ry1 := vadd ry0 (d_b d) in
  let pri1 := nmax pri0 (unscale_primal_res_eq pc (d_b d)) in
  let rz0 := vneg (matT_vec (d_GT d) (x it)) in
  let pri2 := nmax pri1 (unscale_primal_res_ineq pc rz0) in
  let rz1 := vadd rz0 (vsub (d_h d) (s it)) in
  let pri3 := nmax (nmax pri2 (unscale_primal_res_ineq pc (d_h d))) (unscale_primal_res_ineq pc (s it)) in
  do xlb <- gather (x it) (d_lb_idx d) ;;
  let rlb0 := vmul lbs xlb in
  let pri4 := nmax pri3 (unscale_primal_res_lb pc rlb0) in
  let rlb1 := vadd rlb0 (vsub (d_lb_n d) (s_lb it)) in
  let pri5 := nmax (nmax pri4 (unscale_primal_res_lb pc (d_lb_n d))) (unscale_primal_res_lb pc (s_lb it)) in
  do xub <- gather (x it) (d_ub_idx d) ;;
  let rub0 := vneg (vmul ubs xub) in
  let pri6 := nmax pri5 (unscale_primal_res_ub pc rub0) in
  let rub1 := vadd rub0 (vsub (d_ub d) (s_ub it)) in
  let pri7 := nmax (nmax pri6 (unscale_primal_res_ub pc (d_ub d))) (unscale_primal_res_ub pc (s_ub it)) in
  Ok ({| rx_nr := rx2; ry_nr := ry1; rz_nr := rz1; rz_lb_nr := rlb1; rz_ub_nr := rub1 |},
      inf <| i_dual_rel_inf := dri2 |> <| i_primal_obj := unscale_cost pc pobj |> <| i_dual_obj := unscale_cost pc dobj |>
          <| i_duality_gap_rel := gap_rel |> <| i_duality_gap := unscale_cost pc gap |> <| i_primal_rel_inf := pri7 |>).

Definition primal_inf_of (ry rz rzlb rzub : Vec) : F :=
  nmax (nmax (nmax (norm_inf (unscale_primal_res_eq pc ry)) (unscale_primal_res_ineq pc rz))
             (unscale_primal_res_lb pc rzlb)) (unscale_primal_res_ub pc rzub).
Definition primal_inf_nr (r : Resid) : F := primal_inf_of (ry_nr r) (rz_nr r) (rz_lb_nr r) (rz_ub_nr r).
Definition dual_inf_nr (r : Resid) : F := norm_inf (unscale_dual_res pc (rx_nr r)).
Definition primal_prox_inf (it : Iterate) : F :=
  nmax (nmax (nmax (norm_inf (unscale_dual_eq pc (vsub (lambda it) (y it)))) (unscale_dual_ineq pc (vsub (nu it) (z it))))
             (unscale_dual_lb pc (vsub (nu_lb it) (z_lb it)))) (unscale_dual_ub pc (vsub (nu_ub it) (z_ub it))).
Definition dual_prox_inf (it : Iterate) : F := norm_inf (unscale_primal pc (vsub (x it) (zeta it))).

End Residuals.

(* ------------------------------------------------------------------------------------------------ *)
Section Solve.
Variable K : Consts.
Variable S : Settings.
Variable d : Data.
Variable pc : Precond.
(* failure oracle of hook H1: the k-th call of regularize_and_factorize (k = 0,1,...) fails iff fault k *)
Variable fault : nat -> bool.
(* checkpoint rounding of hook H2 (identity when the hook is inactive) *)
Variable cp : F -> F.

Definition nineq : nat := d_m d + d_nlb d + d_nub d.

Definition cp_iterate (it : Iterate) : Iterate :=
  it <| x := map cp (x it) |> <| y := map cp (y it) |> <| z := map cp (z it) |> <| z_lb := map cp (z_lb it) |> <| z_ub := map cp (z_ub it) |>
     <| s := map cp (s it) |> <| s_lb := map cp (s_lb it) |> <| s_ub := map cp (s_ub it) |>.

Record St := mkSt {
  st_it : Iterate; st_inf : Info; st_kkt : KKT; st_refine : bool; st_res : Resid;
  st_calls : nat                      (* number of factorisation calls so far *)
}.
#[export] Instance etaSt : Settable _ := settable! mkSt <st_it; st_inf; st_kkt; st_refine; st_res; st_calls>.

Definition mu_of (it : Iterate) : res F :=
  qdiv (dot (s it) (z it) + dot (s_lb it) (z_lb it) + dot (s_ub it) (z_ub it)) (qofnat nineq).

Definition do_update_scalings (st : St) : res St :=
  do k <- kkt_update_scalings d (st_kkt st) (i_rho (st_inf st)) (i_delta (st_inf st))
         (s (st_it st)) (s_lb (st_it st)) (s_ub (st_it st)) (z (st_it st)) (z_lb (st_it st)) (z_ub (st_it st)) ;;
  Ok (st <| st_kkt := k |>).

Definition do_factorize (st : St) : res (St * bool) :=
  do '(k, ok) <- regularize_and_factorize S d (st_kkt st) (st_refine st) (fault (st_calls st)) ;;
  Ok (st <| st_kkt := k |> <| st_calls := Datatypes.S (st_calls st) |>, ok).

(* retry bookkeeping shared by both retry sites *)
Definition bump_reg (inf : Info) : Info :=
  inf <| i_delta := i_delta inf * k_retry_mul K |> <| i_rho := i_rho inf * k_retry_mul K |>
      <| i_factor_retires := (i_factor_retires inf + 1)%Z |>
      <| i_reg_limit := qmin (k_reglim_mul K * i_reg_limit inf) (eps_abs S) |>.

(* initial factorisation: while (!factorize) { enable refinement | bump + update_scalings | NUMERICS } *)
Fixpoint init_factor (fuel : nat) (st : St) : res (St * bool) :=
  match fuel with
  | O => Err Fuel
  | Datatypes.S f =>
      do '(st1, ok) <- do_factorize st ;;
      if ok then Ok (st1, true)
      else if negb (st_refine st1) then init_factor f (st1 <| st_refine := true |>)
      else if (i_factor_retires (st_inf st1) <? max_factor_retires S)%Z then
        do st2 <- do_update_scalings (st1 <| st_inf := bump_reg (st_inf st1) |>) ;;
        init_factor f st2
      else Ok (st1 <| st_inf := (st_inf st1) <| i_status := NUMERICS |> |>, false)
  end.

(* step to the boundary: alpha = min(1, min_{d_i<0} -v_i/d_i) over the three blocks *)
Definition ratio_min (alpha : F) (v dv : Vec) : res F :=
  foldM (fun a p => if qltb (snd p) 0 then do r <- qdiv (- fst p) (snd p) ;; Ok (qmin a r) else Ok a) (combine v dv) alpha.

Definition step_lengths (it : Iterate) (stp : Step) : res (F * F) :=
  do a1 <- ratio_min 1 (s it) (st_s stp) ;; do a2 <- ratio_min a1 (s_lb it) (st_s_lb stp) ;; do a_s <- ratio_min a2 (s_ub it) (st_s_ub stp) ;;
  do b1 <- ratio_min 1 (z it) (st_z stp) ;; do b2 <- ratio_min b1 (z_lb it) (st_z_lb stp) ;; do a_z <- ratio_min b2 (z_ub it) (st_z_ub stp) ;;
  Ok (a_s, a_z).

Definition initial_point (st : St) : res St :=
  let kk := st_kkt st in
  do stp <- kkt_solve S d kk (st_refine st) (vneg (d_c d)) (d_b d) (d_h d) (d_lb_n d) (d_ub d)
           (vconst (d_m d) 0) (vconst (d_nlb d) 0) (vconst (d_nub d) 0) ;;
  let it0 := cp_iterate ((st_it st) <| x := st_x stp |> <| y := st_y stp |> <| z := st_z stp |> <| z_lb := st_z_lb stp |> <| z_ub := st_z_ub stp |>
                        <| s := st_s stp |> <| s_lb := st_s_lb stp |> <| s_ub := st_s_ub stp |>) in
  do '(it1, inf1) <-
    (if Nat.ltb 0 nineq then
       let s_norm := qmax (qmax (qmax 0 (norm_inf (s it0))) (norm_inf (s_lb it0))) (norm_inf (s_ub it0)) in
       let it_a := if qleb s_norm (k_snorm K) then
                     it0 <| s := vconst (d_m d) (k_sinit K) |> <| s_lb := vconst (d_nlb d) (k_sinit K) |> <| s_ub := vconst (d_nub d) (k_sinit K) |>
                         <| z := vconst (d_m d) (k_sinit K) |> <| z_lb := vconst (d_nlb d) (k_sinit K) |> <| z_ub := vconst (d_nub d) (k_sinit K) |>
                   else it0 in
       let shift (a : F) (v : Vec) : F := match v with [] => a | h :: t => qmax a (- (k_shift K) * fold_left qmin t h) end in
       let delta_s := shift (shift (shift 0 (s it_a)) (s_lb it_a)) (s_ub it_a) in
       let delta_z := shift (shift (shift 0 (z it_a)) (z_lb it_a)) (z_ub it_a) in
       let tmp_prod := dot (vaddc delta_s (s it_a)) (vaddc delta_z (z it_a))
                       + dot (vaddc delta_s (s_lb it_a)) (vaddc delta_z (z_lb it_a))
                       + dot (vaddc delta_s (s_ub it_a)) (vaddc delta_z (z_ub it_a)) in
       do q_s <- qdiv (k_half K * tmp_prod) (vsum (z it_a) + vsum (z_lb it_a) + vsum (z_ub it_a) + qofnat nineq * delta_z) ;;
       do q_z <- qdiv (k_half K * tmp_prod) (vsum (s it_a) + vsum (s_lb it_a) + vsum (s_ub it_a) + qofnat nineq * delta_s) ;;
       let dsb := delta_s + q_s in let dzb := delta_z + q_z in
       let it_b := it_a <| s := vaddc dsb (s it_a) |> <| s_lb := vaddc dsb (s_lb it_a) |> <| s_ub := vaddc dsb (s_ub it_a) |>
                        <| z := vaddc dzb (z it_a) |> <| z_lb := vaddc dzb (z_lb it_a) |> <| z_ub := vaddc dzb (z_ub it_a) |> in
       do mu <- mu_of it_b ;;
       Ok (it_b, (st_inf st) <| i_mu := mu |>)
     else Ok (it0, st_inf st)) ;;
  let it2 := it1 <| zeta := x it1 |> <| lambda := y it1 |> <| nu := z it1 |> <| nu_lb := z_lb it1 |> <| nu_ub := z_ub it1 |> in
  Ok (st <| st_it := it2 |> <| st_inf := inf1 |>).

Definition thresh (rel : F) : F := eps_abs S + eps_rel S * rel.

Definition zmin (a b : Z) : Z := if (b <? a)%Z then b else a.

Inductive Outcome := Continue (st : St) | Stop (st : St).

(* one pass of the main while loop (the loop guard iter < max_iter has been checked by the caller) *)
Definition loop_pass (st : St) : res Outcome :=
  let inf0 := st_inf st in
  do '(res0, inf0a) <- (if (i_iter inf0 =? 0)%Z then update_nr_residuals d pc K (st_it st) inf0 else Ok (st_res st, inf0)) ;;
  let inf1 := inf0a <| i_primal_inf := primal_inf_nr pc res0 |> <| i_dual_inf := dual_inf_nr pc res0 |> in
  let st1 := st <| st_res := res0 |> <| st_inf := inf1 |> in
  if qltb (i_primal_inf inf1) (thresh (i_primal_rel_inf inf1)) &&
     qltb (i_dual_inf inf1) (thresh (i_dual_rel_inf inf1)) &&
     (negb (check_duality_gap S) || qltb (i_duality_gap inf1) (eps_duality_gap_abs S + eps_duality_gap_rel S * i_duality_gap_rel inf1))
  then Ok (Stop (st1 <| st_inf := inf1 <| i_status := SOLVED |> |>))
  else
  let it := st_it st1 in
  let rx := vsub (rx_nr res0) (vscale (i_rho inf1) (vsub (x it) (zeta it))) in
  let ry := vsub (ry_nr res0) (vscale (i_delta inf1) (vsub (lambda it) (y it))) in
  let rz := vsub (rz_nr res0) (vscale (i_delta inf1) (vsub (nu it) (z it))) in
  let rz_lb := vsub (rz_lb_nr res0) (vscale (i_delta inf1) (vsub (nu_lb it) (z_lb it))) in
  let rz_ub := vsub (rz_ub_nr res0) (vscale (i_delta inf1) (vsub (nu_ub it) (z_ub it))) in
  if (zmin (k_infeas_cnt K) (reg_finetune_dual_update_threshold S) <? i_no_dual_update inf1)%Z &&
     qltb (k_prox_big K) (primal_prox_inf pc it) &&
     qltb (primal_inf_of pc ry rz rz_lb rz_ub) (thresh (i_primal_rel_inf inf1))
  then Ok (Stop (st1 <| st_inf := inf1 <| i_status := PRIMAL_INFEASIBLE |> |>))
  else
  if (zmin (k_infeas_cnt K) (reg_finetune_primal_update_threshold S) <? i_no_primal_update inf1)%Z &&
     qltb (k_prox_big K) (dual_prox_inf pc it) &&
     qltb (norm_inf (unscale_dual_res pc rx)) (thresh (i_dual_rel_inf inf1))
  then Ok (Stop (st1 <| st_inf := inf1 <| i_status := DUAL_INFEASIBLE |> |>))
  else
  let inf2 := inf1 <| i_iter := (i_iter inf1 + 1)%Z |> in
  (* boundary control *)
  let lt_eps (v : Vec) := match v with [] => false | h :: t => qltb (fold_left qmin t h) (k_eps K) end in
  let sh_z := lt_eps (z it) in let sh_lb := lt_eps (z_lb it) in let sh_ub := lt_eps (z_ub it) in
  let it3 := it <| z := if sh_z then vaddc (k_eps K) (z it) else z it |>
                <| z_lb := if sh_lb then vaddc (k_eps K) (z_lb it) else z_lb it |>
                <| z_ub := if sh_ub then vaddc (k_eps K) (z_ub it) else z_ub it |> in
  do inf3 <- (if sh_z || sh_lb || sh_ub then do mu <- mu_of it3 ;; Ok (inf2 <| i_mu := mu |>) else Ok inf2) ;;
  (* regularisation fine-tuning switch *)
  let inf4 :=
    if ((reg_finetune_primal_update_threshold S <? i_no_primal_update inf3)%Z && qeqb (i_rho inf3) (i_reg_limit inf3)
        && negb (qeqb (i_reg_limit inf3) (reg_finetune_lower_limit S))) ||
       ((reg_finetune_dual_update_threshold S <? i_no_dual_update inf3)%Z && qeqb (i_delta inf3) (i_reg_limit inf3)
        && negb (qeqb (i_reg_limit inf3) (reg_finetune_lower_limit S)))
    then inf3 <| i_reg_limit := reg_finetune_lower_limit S |> <| i_no_primal_update := 0%Z |> <| i_no_dual_update := 0%Z |>
    else inf3 in
  do st4 <- do_update_scalings (st1 <| st_it := it3 |> <| st_inf := inf4 |>) ;;
  do '(st5, ok) <- do_factorize st4 ;;
  if negb ok then
    if negb (st_refine st5) then Ok (Continue (st5 <| st_refine := true |>))
    else if (i_factor_retires (st_inf st5) <? max_factor_retires S)%Z then
      let inf5 := bump_reg (st_inf st5) in
      Ok (Continue (st5 <| st_inf := inf5 <| i_iter := (i_iter inf5 - 1)%Z |> |>))
    else Ok (Stop (st5 <| st_inf := (st_inf st5) <| i_status := NUMERICS |> |>))
  else
  let inf6 := (st_inf st5) <| i_factor_retires := 0%Z |> in
  let kk := st_kkt st5 in
  if Nat.ltb 0 nineq then
    (* predictor *)
    let rs := vneg (vmul (s it3) (z it3)) in
    let rs_lb := vneg (vmul (s_lb it3) (z_lb it3)) in
    let rs_ub := vneg (vmul (s_ub it3) (z_ub it3)) in
    do p <- kkt_solve S d kk (st_refine st5) rx ry rz rz_lb rz_ub rs rs_lb rs_ub ;;
    do '(a_s0, a_z0) <- step_lengths it3 p ;;
    let a_s := a_s0 * tau S in let a_z := a_z0 * tau S in
    let sig0 := dot (vadd (s it3) (vscale a_s (st_s p))) (vadd (z it3) (vscale a_z (st_z p)))
              + dot (vadd (s_lb it3) (vscale a_s (st_s_lb p))) (vadd (z_lb it3) (vscale a_z (st_z_lb p)))
              + dot (vadd (s_ub it3) (vscale a_s (st_s_ub p))) (vadd (z_ub it3) (vscale a_z (st_z_ub p))) in
    do sig1 <- qdiv sig0 (i_mu inf6 * qofnat nineq) ;;
    let sig2 := qmax 0 (qmin 1 sig1) in
    let sigma := sig2 * sig2 * sig2 in
    let sm := sigma * i_mu inf6 in
    (* corrector *)
    let rs' := vaddc sm (vsub rs (vmul (st_s p) (st_z p))) in
    let rs_lb' := vaddc sm (vsub rs_lb (vmul (st_s_lb p) (st_z_lb p))) in
    let rs_ub' := vaddc sm (vsub rs_ub (vmul (st_s_ub p) (st_z_ub p))) in
    do c <- kkt_solve S d kk (st_refine st5) rx ry rz rz_lb rz_ub rs' rs_lb' rs_ub' ;;
    do '(b_s0, b_z0) <- step_lengths it3 c ;;
    let ps := b_s0 * tau S in let ds_ := b_z0 * tau S in
    let it4 := cp_iterate (it3 <| x := vadd (x it3) (vscale ps (st_x c)) |> <| y := vadd (y it3) (vscale ds_ (st_y c)) |>
                   <| z := vadd (z it3) (vscale ds_ (st_z c)) |> <| z_lb := vadd (z_lb it3) (vscale ds_ (st_z_lb c)) |>
                   <| z_ub := vadd (z_ub it3) (vscale ds_ (st_z_ub c)) |>
                   <| s := vadd (s it3) (vscale ps (st_s c)) |> <| s_lb := vadd (s_lb it3) (vscale ps (st_s_lb c)) |>
                   <| s_ub := vadd (s_ub it3) (vscale ps (st_s_ub c)) |>) in
    let mu_prev := i_mu inf6 in
    do mu <- mu_of it4 ;;
    do rate0 <- qdiv (mu_prev - mu) mu_prev ;;
    let mu_rate := qmax 0 rate0 in
    let inf7 := inf6 <| i_sigma := sigma |> <| i_primal_step := ps |> <| i_dual_step := ds_ |> <| i_mu := mu |> in
    do '(res1, inf8) <- update_nr_residuals d pc K it4 inf7 ;;
    let good_d := qltb (dual_inf_nr pc res1) (k_improve K * i_dual_inf inf8)
                  || (qeqb (i_rho inf8) (reg_finetune_lower_limit S) && qltb (dual_prox_inf pc it4) (k_prox_small K)) in
    let it5 := if good_d then it4 <| zeta := x it4 |> else it4 in
    let inf9 := if good_d then inf8 <| i_rho := qmax (i_reg_limit inf8) ((1 - mu_rate) * i_rho inf8) |>
                else inf8 <| i_no_primal_update := (i_no_primal_update inf8 + 1)%Z |>
                          <| i_rho := qmax (i_reg_limit inf8) ((1 - k_mu_damp K * mu_rate) * i_rho inf8) |> in
    let good_p := qltb (primal_inf_nr pc res1) (k_improve K * i_primal_inf inf9)
                  || (qeqb (i_delta inf9) (reg_finetune_lower_limit S) && qltb (primal_prox_inf pc it5) (k_prox_small K)) in
    let it6 := if good_p then it5 <| lambda := y it5 |> <| nu := z it5 |> <| nu_lb := z_lb it5 |> <| nu_ub := z_ub it5 |> else it5 in
    let inf10 := if good_p then inf9 <| i_delta := qmax (i_reg_limit inf9) ((1 - mu_rate) * i_delta inf9) |>
                 else inf9 <| i_no_dual_update := (i_no_dual_update inf9 + 1)%Z |>
                           <| i_delta := qmax (i_reg_limit inf9) ((1 - k_mu_damp K * mu_rate) * i_delta inf9) |> in
    Ok (Continue (st5 <| st_it := it6 |> <| st_inf := inf10 <| i_rho := cp (i_rho inf10) |> <| i_delta := cp (i_delta inf10) |> |> <| st_res := res1 |>))
  else
    do c <- kkt_solve S d kk (st_refine st5) rx ry rz rz_lb rz_ub (vconst (d_m d) 0) (vconst (d_nlb d) 0) (vconst (d_nub d) 0) ;;
    let it4 := cp_iterate (it3 <| x := vadd (x it3) (st_x c) |> <| y := vadd (y it3) (st_y c) |>) in
    let inf7 := inf6 <| i_primal_step := 1 |> <| i_dual_step := 1 |> in
    do '(res1, inf8) <- update_nr_residuals d pc K it4 inf7 ;;
    let good_d := qltb (dual_inf_nr pc res1) (k_improve K * i_dual_inf inf8) in
    let it5 := if good_d then it4 <| zeta := x it4 |> else it4 in
    let inf9 := if good_d then inf8 <| i_rho := qmax (i_reg_limit inf8) (k_noineq_good K * i_rho inf8) |>
                else inf8 <| i_no_primal_update := (i_no_primal_update inf8 + 1)%Z |>
                          <| i_rho := qmax (i_reg_limit inf8) (k_noineq_bad K * i_rho inf8) |> in
    let good_p := qltb (primal_inf_nr pc res1) (k_improve K * i_primal_inf inf9) in
    let it6 := if good_p then it5 <| lambda := y it5 |> else it5 in
    let inf10 := if good_p then inf9 <| i_delta := qmax (i_reg_limit inf9) (k_noineq_good K * i_delta inf9) |>
                 else inf9 <| i_no_dual_update := (i_no_dual_update inf9 + 1)%Z |>
                           <| i_delta := qmax (i_reg_limit inf9) (k_noineq_bad K * i_delta inf9) |> in
    Ok (Continue (st5 <| st_it := it6 |> <| st_inf := inf10 <| i_rho := cp (i_rho inf10) |> <| i_delta := cp (i_delta inf10) |> |> <| st_res := res1 |>)).

Fixpoint main_loop (fuel : nat) (st : St) : res St :=
  match fuel with
  | O => Err Fuel
  | Datatypes.S f =>
      if (i_iter (st_inf st) <? max_iter S)%Z then
        do o <- loop_pass st ;;
        match o with Continue st' => main_loop f st' | Stop st' => Ok st' end
      else Ok (st <| st_inf := (st_inf st) <| i_status := MAX_ITER_REACHED |> |>)
  end.

(* fuel bound used by the termination theorem *)
Definition loop_fuel : nat := Z.to_nat ((max_iter S + 1) * (max_factor_retires S + 2) + 2).
Definition init_fuel : nat := Z.to_nat (max_factor_retires S + 3).

End Solve.
