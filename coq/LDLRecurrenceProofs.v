(* LDLRecurrenceProofs.v -- C14 2c(i): the mathematical up-looking recurrence that ldlt.hpp implements yields L*D*L^T = A.
   General (all n), stated on functions nat -> nat -> F; only ordered-field algebra.

   For every row k:  y_k solves the triangular system  y_k(i) = a(i,k) - sum_{c<i} l(i,c) * y_k(c)   (i < k)
                     l(k,i) = y_k(i) / d(i)            d(k) = a(k,k) - sum_{i<k} l(k,i) * y_k(i)                 *)
From PIQP Require Import Base CSC C14LemmasProofs.
Local Open Scope nat_scope.

Section Recurrence.
Variable n : nat.
Variable a : nat -> nat -> F.      (* a i k, i <= k : the stored upper triangle *)
Variable l : nat -> nat -> F.      (* l k i, i < k  : strictly lower factor *)
Variable d : nat -> F.
Variable y : nat -> nat -> F.      (* y k i, i < k  : the work vector of row k *)

Hypothesis Hy : forall k i, k < n -> i < k -> y k i = (a i k - sum_n i (fun c => l i c * y k c))%Qc.
Hypothesis Hl : forall k i, k < n -> i < k -> l k i = (y k i / d i)%Qc.
Hypothesis Hd : forall k, k < n -> d k = (a k k - sum_n k (fun i => l k i * y k i))%Qc.
Hypothesis Hnz : forall i, i < n -> d i <> 0%Qc.

Definition Lrec (k c : nat) : F := if k =? c then 1%Qc else l k c.

Lemma y_is_ld k i : k < n -> i < k -> y k i = (l k i * d i)%Qc.
Proof. intros Hk Hi. rewrite Hl by auto. field. apply Hnz. lia. Qed.

Theorem ldl_recurrence_correct i k : i <= k -> k < n ->
  sum_n (S i) (fun c => Lrec k c * d c * Lrec i c)%Qc = a i k.
Proof.
  intros Hik Hk. cbn [sum_n]. unfold Lrec at 4. rewrite Nat.eqb_refl.
  rewrite (sum_n_ext i _ (fun c => l i c * y k c)%Qc).
  2:{ intros c Hc. unfold Lrec. destruct (Nat.eqb_spec k c); [lia|]. destruct (Nat.eqb_spec i c); [lia|].
      rewrite y_is_ld by lia. fring. }
  unfold Lrec. destruct (Nat.eqb_spec k i) as [->|Hne].
  - rewrite (Hd i) by auto. fring.
  - transitivity (sum_n i (fun c => l i c * y k c) + y k i)%Qc. { rewrite (y_is_ld k i) by lia. fring. }
    rewrite (Hy k i) by lia. fring.
Qed.
End Recurrence.
