(* MatIOProofs.v -- proofs about the .mat codec model MatIO.v (property C20). *)
From Coq Require Import String.
From Coq Require Import ZArith List Bool Lia.
From PIQP.gen Require Import MatioFields.
From PIQP Require Import MatIO.
Import ListNotations.
Open Scope Z_scope.

(* ------------------------------------------------------------------ casts *)
Lemma p31 : 2 ^ 31 = 2147483648. Proof. reflexivity. Qed.
Lemma p32 : 2 ^ 32 = 4294967296. Proof. reflexivity. Qed.
Lemma p63 : 2 ^ 63 = 9223372036854775808. Proof. reflexivity. Qed.
Lemma p64 : 2 ^ 64 = 18446744073709551616. Proof. reflexivity. Qed.

Lemma cast_u32_id z : 0 <= z < 2 ^ 32 -> cast_u32 z = z.
Proof. intros; unfold cast_u32; apply Z.mod_small; assumption. Qed.

Lemma cast_i32_id z : - 2 ^ 31 <= z < 2 ^ 31 -> cast_i32 z = z.
Proof. intros H; unfold cast_i32; rewrite p31, p32 in *; rewrite Z.mod_small; lia. Qed.

Lemma cast_size_t_id z : 0 <= z < 2 ^ 64 -> cast_size_t z = z.
Proof. intros; unfold cast_size_t; apply Z.mod_small; assumption. Qed.

Lemma cast_index_size_t z : 0 <= z < 2 ^ 63 -> cast_index (cast_size_t z) = z.
Proof.
  intros H; unfold cast_index, cast_size_t; rewrite p63, p64 in *.
  rewrite (Z.mod_small z) by lia. rewrite Z.mod_small; lia.
Qed.

Lemma cast_index_id z : - 2 ^ 63 <= z < 2 ^ 63 -> cast_index z = z.
Proof. intros H; unfold cast_index; rewrite p63, p64 in *; rewrite Z.mod_small; lia. Qed.

(* the composite conversion of an index on its way through the file: int -> uint32 -> Index -> int *)
Lemma index_casts_exact z : 0 <= z < index_bound -> cast_i32 (cast_u32 (cast_i32 z)) = z.
Proof.
  unfold index_bound; intros H; rewrite p31 in H.
  rewrite (cast_i32_id z) by (rewrite p31; lia).
  rewrite cast_u32_id by (rewrite p32; lia).
  apply cast_i32_id; rewrite p31; lia.
Qed.

(* the bound is sharp: at 2^31 the conversion to int is no longer the identity *)
Lemma index_casts_at_bound : cast_i32 index_bound = - index_bound.
Proof. reflexivity. Qed.

Lemma size_ok_spec z : size_ok z = true -> 0 <= z < 2 ^ 63.
Proof. unfold size_ok; rewrite andb_true_iff, Z.leb_le, Z.ltb_lt; tauto. Qed.

Lemma idx_ok_spec z : idx_ok z = true -> 0 <= z < 2 ^ 31.
Proof. unfold idx_ok, index_bound; rewrite andb_true_iff, Z.leb_le, Z.ltb_lt; tauto. Qed.

(* ------------------------------------------------------------------ lists *)
Lemma map_nth_seq {A} (l : list A) d : map (fun k => nth k l d) (seq 0 (length l)) = l.
Proof.
  induction l as [|a l IH]; [reflexivity|].
  cbn [length seq map nth]. f_equal. rewrite <- seq_shift, map_map. exact IH.
Qed.

Lemma map_id_in {A} (f : A -> A) l : (forall x, In x l -> f x = x) -> map f l = l.
Proof.
  intros H. rewrite <- (map_id l) at 2. apply map_ext_in. exact H.
Qed.

Lemma zrange_app a b e : 0 <= a -> a <= b -> b <= e -> (zrange a b ++ zrange b e)%list = zrange a e.
Proof.
  intros. unfold zrange.
  replace (Z.to_nat (e - a)) with (Z.to_nat (b - a) + Z.to_nat (e - b))%nat by lia.
  rewrite seq_app. f_equal. f_equal. lia.
Qed.

Lemma zrange_nil a : zrange a a = [].
Proof. unfold zrange. rewrite Z.sub_diag. reflexivity. Qed.

Lemma zrange_0 n : zrange 0 (Z.of_nat n) = seq 0 n.
Proof. unfold zrange. rewrite Z.sub_0_r, Nat2Z.id. reflexivity. Qed.

Lemma zrange_length a b : length (zrange a b) = Z.to_nat (b - a).
Proof. unfold zrange. apply seq_length. Qed.

(* j -> (outer[j], outer[j+1]) for j < cols is the list of consecutive pairs of outer *)
Lemma pairs_of_nth {B} (g : Z -> Z -> B) o n :
  length o = S n ->
  map (fun j => g (nth j o 0) (nth (S j) o 0)) (seq 0 n) = map (fun ab => g (fst ab) (snd ab)) (combine o (tl o)).
Proof.
  revert n. induction o as [|a o IH]; intros n H; [discriminate|].
  destruct o as [|b o'].
  - simpl in H. injection H as <-. reflexivity.
  - destruct n as [|n]; [discriminate|].
    cbn [seq]. rewrite <- seq_shift. cbn [map]. rewrite map_map.
    cbn [combine tl map fst snd nth]. f_equal.
    apply (IH n). simpl in H |- *. lia.
Qed.

Lemma chain_last_ge t : forall a, chainb a t = true -> a <= lastz a t.
Proof.
  induction t as [|b t IH]; intros a H; simpl in *; [lia|].
  apply andb_true_iff in H as [H1 H2]. apply Z.leb_le in H1. specialize (IH b H2). lia.
Qed.

Lemma chain_bounds t : forall a, chainb a t = true -> Forall (fun x => a <= x <= lastz a t) (a :: t).
Proof.
  induction t as [|b t IH]; intros a H.
  - constructor; [simpl; lia|constructor].
  - simpl in H. apply andb_true_iff in H as [H1 H2]. apply Z.leb_le in H1.
    pose proof (chain_last_ge t b H2) as Hl. specialize (IH b H2).
    constructor; [simpl; lia|].
    eapply Forall_impl; [|exact IH]. simpl. intros; lia.
Qed.

Lemma nth_lastz t : forall a d, nth (length t) (a :: t) d = lastz a t.
Proof. induction t as [|b t IH]; intros a d; [reflexivity|]. simpl. apply (IH b d). Qed.

Lemma chain_concat {B} (f : nat -> B) t : forall a, 0 <= a -> chainb a t = true ->
  concat (map (fun ab => map f (zrange (fst ab) (snd ab))) (combine (a :: t) t)) = map f (zrange a (lastz a t)).
Proof.
  induction t as [|b t IH]; intros a Ha H.
  - simpl. rewrite zrange_nil. reflexivity.
  - simpl in H. apply andb_true_iff in H as [H1 H2]. apply Z.leb_le in H1.
    change (combine (a :: b :: t) (b :: t)) with ((a, b) :: combine (b :: t) t).
    cbn [map concat fst snd lastz].
    rewrite (IH b) by (lia || assumption). rewrite <- map_app. f_equal.
    apply zrange_app; [lia|lia|apply chain_last_ge; assumption].
Qed.

Lemma chain_sums {B} (f : nat -> B) t : forall a s, 0 <= a -> chainb a t = true ->
  prefix_sums s (map (fun c => Z.of_nat (length c)) (map (fun ab => map f (zrange (fst ab) (snd ab))) (combine (a :: t) t)))
  = map (fun x => s + (x - a)) (a :: t).
Proof.
  induction t as [|b t IH]; intros a s Ha H.
  - simpl. f_equal. lia.
  - simpl in H. apply andb_true_iff in H as [H1 H2]. apply Z.leb_le in H1.
    change (combine (a :: b :: t) (b :: t)) with ((a, b) :: combine (b :: t) t).
    cbn [map fst snd prefix_sums]. f_equal; [lia|].
    rewrite (IH b) by (lia || assumption).
    rewrite map_length, zrange_length. cbn [map]. f_equal; [lia|]. apply map_ext. intros x. lia.
Qed.

Section Proofs.
Variable V : Type.
Variable junk : V.

Lemma linear_copy_id n (l : list V) : Z.to_nat n = length l -> linear_copy junk n l = l.
Proof. intros H. unfold linear_copy. rewrite H. apply map_nth_seq. Qed.

(* ------------------------------------------------------------------ T1 dense *)
Theorem dense_roundtrip (m : DenseMat V) :
  wf_dense V m = true -> decode_dense junk (encode_dense junk m) = Some m.
Proof.
  destruct m as [r c d]. unfold wf_dense. cbn [d_rows d_cols d_data].
  rewrite !andb_true_iff, Z.eqb_eq. intros [[Hr Hc] Hl].
  apply size_ok_spec in Hr. apply size_ok_spec in Hc.
  unfold decode_dense, encode_dense, read_checks.
  unfold wr_dense_dims, rd_dense_rows_dim, rd_dense_cols_dim.
  cbn [mv_rank mv_complex mv_dtype mv_data mv_dims d_rows d_cols d_data map sel_dim nth Z.eqb negb andb Pos.eqb].
  rewrite !cast_index_size_t by assumption.
  rewrite !linear_copy_id; [reflexivity| |]; try lia.
  rewrite linear_copy_id by lia. lia.
Qed.

Theorem vec_roundtrip (v : list V) :
  wf_vec V v = true -> decode_vec junk (encode_vec junk v) = Some v.
Proof.
  intros H. unfold decode_vec, encode_vec.
  rewrite dense_roundtrip.
  - reflexivity.
  - unfold wf_dense, wf_vec in *. cbn [d_rows d_cols d_data]. rewrite H. rewrite Z.mul_1_r, Z.eqb_refl. reflexivity.
Qed.

(* ------------------------------------------------------------------ sparse: the Eigen copy is the identity on a well-formed compressed matrix *)
Record csc_facts (m : SpMat V) : Prop := {
  cf_rows : 0 <= sp_rows m < 2 ^ 31;
  cf_cols : 0 <= sp_cols m < 2 ^ 31;
  cf_innz : sp_innz m = None;
  cf_len : Z.of_nat (length (sp_outer m)) = sp_cols m + 1;
  cf_outer : exists t, sp_outer m = 0 :: t /\ chainb 0 t = true /\ lastz 0 t = Z.of_nat (length (sp_inner m));
  cf_vals : length (sp_inner m) = length (sp_vals m);
  cf_nnz : Z.of_nat (length (sp_inner m)) < 2 ^ 31;
  cf_inner : forall x, In x (sp_inner m) -> 0 <= x < 2 ^ 31 }.

Lemma wf_csc_facts m : wf_csc V m = true -> csc_facts m.
Proof.
  unfold wf_csc. rewrite !andb_true_iff.
  intros [[[[[[[Hr Hc] Hz] Hl] Ho] Hv] Hn] Hi].
  apply idx_ok_spec in Hr. apply idx_ok_spec in Hc.
  constructor; try assumption.
  - destruct (sp_innz m); [discriminate|reflexivity].
  - apply Z.eqb_eq in Hl. exact Hl.
  - destruct (sp_outer m) as [|a t]; [discriminate|].
    rewrite !andb_true_iff, !Z.eqb_eq in Ho. destruct Ho as [[Ha Hch] Hla]. subst a.
    exists t. auto.
  - apply Z.eqb_eq in Hv. lia.
  - apply Z.ltb_lt in Hn. exact Hn.
  - intros x Hx. rewrite forallb_forall in Hi. apply idx_ok_spec. apply Hi. exact Hx.
Qed.

Lemma copy_compress_id (m : SpMat V) : wf_csc V m = true -> copy_compress junk cast_i32 m = m.
Proof.
  intros W. destruct (wf_csc_facts m W) as [Hr Hc Hz Hl [t [Ho [Hch Hla]]] Hv Hn Hi].
  destruct m as [r c o nz inn vals]. cbn [sp_rows sp_cols sp_outer sp_innz sp_inner sp_vals] in *. subst o nz.
  unfold copy_compress, copy_col, col_end. cbn [sp_rows sp_cols sp_outer sp_innz sp_inner sp_vals].
  assert (Hn' : length (0 :: t) = S (Z.to_nat c)) by lia.
  rewrite (pairs_of_nth (fun s e => map (fun p => (cast_i32 (nth p inn 0), nth p vals junk)) (zrange s e)) (0 :: t) (Z.to_nat c) Hn').
  cbn [tl].
  rewrite chain_concat by (lia || assumption).
  rewrite chain_sums by (lia || assumption).
  rewrite Hla, zrange_0.
  f_equal.
  - rewrite map_map. apply map_id_in. intros x Hx.
    pose proof (chain_bounds t 0 Hch) as HB. rewrite Forall_forall in HB. specialize (HB x Hx).
    replace (0 + (x - 0)) with x by lia. apply cast_i32_id. rewrite p31 in *. lia.
  - rewrite map_map. cbn [fst].
    rewrite <- (map_map (fun p => nth p inn 0) cast_i32). rewrite map_nth_seq.
    apply map_id_in. intros x Hx. apply cast_i32_id. specialize (Hi x Hx). rewrite p31 in *. lia.
  - rewrite map_map. cbn [snd]. rewrite Hv. apply map_nth_seq.
Qed.

(* what encode_sparse puts into mat_sparse_t for a well-formed compressed matrix: the three arrays, verbatim *)
Lemma encode_sparse_wf (m : SpMat V) : wf_csc V m = true ->
  encode_sparse junk m =
  {| mv_rank := 2; mv_class := C_SPARSE; mv_dtype := T_DOUBLE; mv_complex := false;
     mv_dims := map (sel_dim (sp_rows m) (sp_cols m)) wr_sparse_dims;
     mv_data := MSparse (Z.of_nat (length (sp_inner m))) (sp_inner m) (Z.of_nat (length (sp_inner m)))
                        (sp_outer m) (sp_cols m + 1) (Z.of_nat (length (sp_inner m))) (sp_vals m) |}.
Proof.
  intros W. unfold encode_sparse. rewrite (copy_compress_id m W).
  destruct (wf_csc_facts m W) as [Hr Hc Hz Hl [t [Ho [Hch Hla]]] Hv Hn Hi].
  assert (Hnz : nonzeros m = Z.of_nat (length (sp_inner m))).
  { unfold nonzeros. rewrite Ho. replace (Z.to_nat (sp_cols m)) with (length t) by (rewrite Ho in Hl; simpl length in Hl; lia).
    rewrite nth_lastz. cbn [nth]. lia. }
  rewrite Hnz. rewrite Nat2Z.id. rewrite firstn_all.
  replace (Z.to_nat (sp_cols m + 1)) with (length (sp_outer m)) by lia. rewrite firstn_all.
  rewrite p31 in *.
  rewrite (cast_size_t_id (sp_rows m)) by (rewrite p64; lia).
  rewrite (cast_size_t_id (sp_cols m)) by (rewrite p64; lia).
  rewrite (cast_u32_id (Z.of_nat _)) by (rewrite p32; lia).
  rewrite (cast_u32_id (sp_cols m + 1)) by (rewrite p32; lia).
  rewrite (map_id_in cast_u32 (sp_inner m)) by (intros x Hx; apply cast_u32_id; specialize (Hi x Hx); rewrite p32; lia).
  rewrite (map_id_in cast_u32 (sp_outer m)).
  2:{ intros x Hx. apply cast_u32_id. rewrite Ho in Hx.
      pose proof (chain_bounds t 0 Hch) as HB. rewrite Forall_forall in HB. specialize (HB x Hx). rewrite p32. lia. }
  rewrite linear_copy_id by lia.
  reflexivity.
Qed.

(* ------------------------------------------------------------------ T2 sparse *)
Theorem sparse_roundtrip (m : SpMat V) :
  wf_csc V m = true -> decode_sparse junk (encode_sparse junk m) = Some m.
Proof.
  intros W. rewrite (encode_sparse_wf m W).
  pose proof (copy_compress_id m W) as Hid.
  destruct (wf_csc_facts m W) as [Hr Hc Hz Hl _ Hv Hn Hi].
  destruct m as [r c o nz inn vals]. cbn [sp_rows sp_cols sp_outer sp_innz sp_inner sp_vals] in *. subst nz.
  unfold decode_sparse, read_checks.
  unfold wr_sparse_dims, rd_sparse_rows_dim, rd_sparse_cols_dim, rd_sparse_njc_dim.
  cbn [mv_rank mv_complex mv_dtype mv_data mv_dims map sel_dim nth Z.eqb negb andb Pos.eqb].
  rewrite !Z.eqb_refl. cbn [negb orb].
  rewrite p31 in *.
  rewrite !cast_index_id by (rewrite p63; lia).
  rewrite Hid. reflexivity.
Qed.


(* un-compressed input (innerNonZeros present): what comes back is the compressed image produced by `dst = matrix` *)
Theorem sparse_roundtrip_any (m : SpMat V) :
  wf_spmat V junk m = true -> decode_sparse junk (encode_sparse junk m) = Some (copy_compress junk cast_i32 m).
Proof.
  intros W. unfold wf_spmat in W.
  rewrite <- (sparse_roundtrip _ W).
  f_equal. unfold encode_sparse at 2. rewrite (copy_compress_id _ W). reflexivity.
Qed.

Lemma wf_eigen_csc (m : SpMat V) : wf_eigen V m = true -> wf_csc V m = true.
Proof. unfold wf_eigen. rewrite !andb_true_iff. tauto. Qed.

Theorem sparse_roundtrip_eigen (m : SpMat V) :
  wf_eigen V m = true -> decode_sparse junk (encode_sparse junk m) = Some m.
Proof. intros W. apply sparse_roundtrip. apply wf_eigen_csc. exact W. Qed.

(* ------------------------------------------------------------------ the file *)
Lemma file_read_app n (l1 l2 : File V) :
  file_read n (l1 ++ l2) = match file_read n l1 with Some v => Some v | None => file_read n l2 end.
Proof.
  induction l1 as [|[k v] l1 IH]; [reflexivity|]. simpl. destruct (String.eqb k n); [reflexivity|exact IH].
Qed.

Lemma file_read_delete_same n (f : File V) : file_read n (file_delete n f) = None.
Proof.
  induction f as [|[k v] f IH]; [reflexivity|]. unfold file_delete in *. simpl.
  destruct (String.eqb k n) eqn:E; simpl; [exact IH|rewrite E; exact IH].
Qed.

Lemma file_read_delete_other n n' (f : File V) : n <> n' -> file_read n (file_delete n' f) = file_read n f.
Proof.
  intros Hn. induction f as [|[k v] f IH]; [reflexivity|]. unfold file_delete in *. simpl.
  destruct (String.eqb k n') eqn:E'; simpl.
  - apply String.eqb_eq in E'. subst k.
    destruct (String.eqb n' n) eqn:E; [apply String.eqb_eq in E; congruence|exact IH].
  - destruct (String.eqb k n); [reflexivity|exact IH].
Qed.

Lemma read_write_same n v (f : File V) : file_read n (file_write n v f) = Some v.
Proof.
  unfold file_write. rewrite file_read_app, file_read_delete_same. simpl. rewrite String.eqb_refl. reflexivity.
Qed.

Lemma read_write_other n n' v (f : File V) : n <> n' -> file_read n (file_write n' v f) = file_read n f.
Proof.
  intros Hn. unfold file_write. rewrite file_read_app, file_read_delete_other by assumption.
  destruct (file_read n f); [reflexivity|]. simpl.
  destruct (String.eqb n' n) eqn:E; [apply String.eqb_eq in E; congruence|reflexivity].
Qed.

(* ------------------------------------------------------------------ T4 save then load *)
Lemma wf_val_inv (x : Val V) k : kind_eqb (kind_of V x) k && wf_val V x = true ->
  match k with
  | KDense => exists d, x = VDense d /\ wf_dense V d = true
  | KVec => exists v, x = VVec v /\ wf_vec V v = true
  | KSparse => exists s, x = VSparse s /\ wf_csc V s = true
  end.
Proof.
  rewrite andb_true_iff. intros [Hk Hw].
  destruct x, k; simpl in Hk; try discriminate; eexists; split; try reflexivity; exact Hw.
Qed.

Ltac resolve_reads :=
  repeat (rewrite read_write_same || rewrite read_write_other by discriminate).

Opaque encode_dense encode_vec encode_sparse decode_dense decode_vec decode_sparse file_write file_read wf_dense wf_vec wf_csc.

Theorem save_load_dense (m : Model V) (f0 : File V) :
  wf_model V dense_members m = true ->
  exists f, save_dense_model V junk m f0 = Some f /\ load_dense_model V junk f = Some m.
Proof.
  intros W. destruct m as [P A G c b h xl xu].
  unfold wf_model, dense_members in W. simpl in W.
  apply andb_true_iff in W; destruct W as [W _].
  repeat (let H := fresh "H" in apply andb_true_iff in W; destruct W as [H W]).
  repeat match goal with
         | H : kind_eqb _ _ && _ = true |- _ => apply wf_val_inv in H; destruct H as [? [-> ?]]
         end.
  unfold save_dense_model, save_model, save_dense_stmts. simpl.
  eexists. split; [reflexivity|].
  unfold load_dense_model, load_model.
  let r := eval vm_compute in dense_load_roles in change dense_load_roles with r.
  unfold load_member. simpl.
  resolve_reads.
  rewrite ?dense_roundtrip, ?vec_roundtrip by assumption.
  reflexivity.
Qed.

Theorem save_load_sparse (m : Model V) (f0 : File V) :
  wf_model V sparse_members m = true ->
  exists f, save_sparse_model V junk m f0 = Some f /\ load_sparse_model V junk f = Some m.
Proof.
  intros W. destruct m as [P A G c b h xl xu].
  unfold wf_model, sparse_members in W. simpl in W.
  apply andb_true_iff in W; destruct W as [W _].
  repeat (let H := fresh "H" in apply andb_true_iff in W; destruct W as [H W]).
  repeat match goal with
         | H : kind_eqb _ _ && _ = true |- _ => apply wf_val_inv in H; destruct H as [? [-> ?]]
         end.
  unfold save_sparse_model, save_model, save_sparse_stmts. simpl.
  eexists. split; [reflexivity|].
  unfold load_sparse_model, load_model.
  let r := eval vm_compute in sparse_load_roles in change sparse_load_roles with r.
  unfold load_member. simpl.
  resolve_reads.
  rewrite ?sparse_roundtrip, ?vec_roundtrip by assumption.
  reflexivity.
Qed.

Lemma wf_val_any_inv (x : Val V) k : kind_eqb (kind_of V x) k && wf_val_any V junk x = true ->
  match k with
  | KDense => exists d, x = VDense d /\ wf_dense V d = true
  | KVec => exists v, x = VVec v /\ wf_vec V v = true
  | KSparse => exists s, x = VSparse s /\ wf_spmat V junk s = true
  end.
Proof.
  rewrite andb_true_iff. intros [Hk Hw].
  destruct x, k; simpl in Hk; try discriminate; eexists; split; try reflexivity; exact Hw.
Qed.

Opaque copy_compress wf_spmat.

(* sparse members stored un-compressed: the loaded model holds their compressed images *)
Theorem save_load_sparse_any (m : Model V) (f0 : File V) :
  wf_model_any V junk sparse_members m = true ->
  exists f, save_sparse_model V junk m f0 = Some f /\ load_sparse_model V junk f = Some (compress_model V junk m).
Proof.
  intros W. destruct m as [P A G c b h xl xu].
  unfold wf_model_any, sparse_members in W. simpl in W.
  apply andb_true_iff in W; destruct W as [W _].
  repeat (let H := fresh "H" in apply andb_true_iff in W; destruct W as [H W]).
  repeat match goal with
         | H : kind_eqb _ _ && _ = true |- _ => apply wf_val_any_inv in H; destruct H as [? [-> ?]]
         end.
  unfold save_sparse_model, save_model, save_sparse_stmts. simpl.
  eexists. split; [reflexivity|].
  unfold load_sparse_model, load_model.
  let r := eval vm_compute in sparse_load_roles in change sparse_load_roles with r.
  unfold load_member. simpl.
  resolve_reads.
  rewrite ?sparse_roundtrip_any, ?vec_roundtrip by assumption.
  reflexivity.
Qed.

Transparent copy_compress wf_spmat.
Transparent encode_dense encode_vec encode_sparse decode_dense decode_vec decode_sparse file_write file_read wf_dense wf_vec wf_csc.

End Proofs.

(* ------------------------------------------------------------------ T3 the field lists (regenerated tables) *)
Definition role_pairs (roles : list load_role) : list (string * string) := map (fun r => (lr_name r, lr_member r)) roles.

Ltac nodup_strings := repeat constructor; simpl; intuition discriminate.
Ltac roles_kinds := simpl; intros r H; repeat (destruct H as [<-|H]; [reflexivity|]); contradiction.

Theorem dense_fields_same_roles :
  exists roles, dense_load_roles = Some roles
    /\ NoDup (map fst save_dense_stmts)
    /\ (forall name member, In (name, member) save_dense_stmts <-> In (name, member) (role_pairs roles))
    /\ (forall r, In r roles -> assoc (lr_member r) dense_members = Some (lr_kind r))
    /\ length roles = length dense_members.
Proof.
  eexists. split; [vm_compute; reflexivity|].
  split; [unfold save_dense_stmts; nodup_strings|].
  split; [intros name member; unfold save_dense_stmts, role_pairs; simpl; tauto|].
  split; [roles_kinds|reflexivity].
Qed.

Theorem sparse_fields_same_roles :
  exists roles, sparse_load_roles = Some roles
    /\ NoDup (map fst save_sparse_stmts)
    /\ (forall name member, In (name, member) save_sparse_stmts <-> In (name, member) (role_pairs roles))
    /\ (forall r, In r roles -> assoc (lr_member r) sparse_members = Some (lr_kind r))
    /\ length roles = length sparse_members.
Proof.
  eexists. split; [vm_compute; reflexivity|].
  split; [unfold save_sparse_stmts; nodup_strings|].
  split; [intros name member; unfold save_sparse_stmts, role_pairs; simpl; tauto|].
  split; [roles_kinds|reflexivity].
Qed.

(* ------------------------------------------------------------------ non-vacuity: concrete well-formed objects (V = Z) *)
(* 3x2 dense, distinct entries *)
Definition ex_dense : DenseMat Z := {| d_rows := 3; d_cols := 2; d_data := [11; 12; 13; 14; 15; 16] |}.
(* 0 x 2 dense (no constraints) *)
Definition ex_dense_empty : DenseMat Z := {| d_rows := 0; d_cols := 2; d_data := [] |}.
(* 3x4 CSC: column 0 = {(2,.),(0,.)} unsorted, column 1 empty, column 2 holds an explicit zero (value pattern 0), column 3 one entry *)
Definition ex_csc : SpMat Z :=
  {| sp_rows := 3; sp_cols := 4; sp_outer := [0; 2; 2; 3; 4]; sp_innz := None; sp_inner := [2; 0; 1; 2]; sp_vals := [21; 22; 0; 24] |}.
(* the same pattern, sorted: satisfies Eigen's invariant too *)
Definition ex_csc_sorted : SpMat Z :=
  {| sp_rows := 3; sp_cols := 4; sp_outer := [0; 2; 2; 3; 4]; sp_innz := None; sp_inner := [0; 2; 1; 2]; sp_vals := [22; 21; 0; 24] |}.
(* nnz = 0, and 0 rows *)
Definition ex_csc_empty : SpMat Z :=
  {| sp_rows := 0; sp_cols := 2; sp_outer := [0; 0; 0]; sp_innz := None; sp_inner := []; sp_vals := [] |}.
(* un-compressed storage: 2 columns, capacity 2 and 3, one and two live entries; dead slots hold garbage *)
Definition ex_uncompressed : SpMat Z :=
  {| sp_rows := 3; sp_cols := 2; sp_outer := [0; 2; 5]; sp_innz := Some [1; 2]; sp_inner := [1; 77; 0; 2; 99]; sp_vals := [31; 666; 32; 33; 667] |}.

Example ex_dense_wf : wf_dense Z ex_dense = true /\ wf_dense Z ex_dense_empty = true.
Proof. split; reflexivity. Qed.
Example ex_csc_wf : wf_csc Z ex_csc = true /\ wf_csc Z ex_csc_empty = true /\ wf_eigen Z ex_csc_sorted = true /\ wf_eigen Z ex_csc = false.
Proof. repeat split; reflexivity. Qed.
Example ex_uncompressed_wf : wf_spmat Z (-1) ex_uncompressed = true /\ wf_csc Z ex_uncompressed = false.
Proof. split; reflexivity. Qed.

Definition ex_model_dense : Model Z :=
  {| m_P := VDense {| d_rows := 2; d_cols := 2; d_data := [1; 2; 3; 4] |};
     m_A := VDense ex_dense_empty;
     m_G := VDense {| d_rows := 3; d_cols := 2; d_data := [11; 12; 13; 14; 15; 16] |};
     m_c := VVec [5; 6]; m_b := VVec []; m_h := VVec [7; 8; 9]; m_x_lb := VVec [100; 101]; m_x_ub := VVec [200; 201] |}.
Definition ex_model_sparse : Model Z :=
  {| m_P := VSparse {| sp_rows := 4; sp_cols := 4; sp_outer := [0; 1; 1; 2; 3]; sp_innz := None; sp_inner := [0; 2; 3]; sp_vals := [1; 0; 3] |};
     m_A := VSparse {| sp_rows := 0; sp_cols := 4; sp_outer := [0; 0; 0; 0; 0]; sp_innz := None; sp_inner := []; sp_vals := [] |};
     m_G := VSparse ex_csc_sorted;
     m_c := VVec [5; 6; 7; 8]; m_b := VVec []; m_h := VVec [7; 8; 9]; m_x_lb := VVec [100; 101; 102; 103]; m_x_ub := VVec [200; 201; 202; 203] |}.

Example ex_models_wf : wf_model Z dense_members ex_model_dense = true /\ wf_model Z sparse_members ex_model_sparse = true.
Proof. split; reflexivity. Qed.

(* the storage mode (not the matrix) of an un-compressed input is not preserved: it comes back compressed *)
Example uncompressed_comes_back_compressed :
  decode_sparse (-1) (encode_sparse (-1) ex_uncompressed)
  = Some {| sp_rows := 3; sp_cols := 2; sp_outer := [0; 1; 3]; sp_innz := None; sp_inner := [1; 0; 2]; sp_vals := [31; 32; 33] |}.
Proof. reflexivity. Qed.
