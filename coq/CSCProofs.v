(* CSCProofs.v -- C14 2b, general part: orderings (inv / perm / permt), pre/post_mult_diagonal and
   transpose_no_allocation satisfy their mathematical definitions, for all sizes and patterns. *)
From PIQP Require Import Base CSC C14LemmasProofs.
Local Open Scope nat_scope.

(* ================= orderings ================= *)
(* P is a permutation of 0..n-1 *)
Definition perm_wf (P : list nat) : Prop := NoDup P /\ forall x, In x P -> x < length P.

Lemma perm_wf_range P i : perm_wf P -> i < length P -> nth i P 0 < length P.
Proof. intros [_ H] Hi. apply H. now apply nth_In. Qed.
Lemma perm_wf_inj P i j : perm_wf P -> i < length P -> j < length P -> nth i P 0 = nth j P 0 -> i = j.
Proof. intros [H _] Hi Hj E. eapply NoDup_nth; eauto. Qed.
Lemma perm_wf_surj P x : perm_wf P -> x < length P -> exists k, k < length P /\ nth k P 0 = x.
Proof.
  intros [Hn Hr] Hx.
  assert (Hin : In x P).
  { apply (NoDup_length_incl Hn (l' := seq 0 (length P))).
    - rewrite seq_length; lia.
    - intros y Hy. apply in_seq. specialize (Hr y Hy). lia.
    - apply in_seq; lia. }
  destruct (In_nth P x 0 Hin) as (k & Hk & E). eauto.
Qed.

Theorem ordering_init_correct P : perm_wf P ->
  exists o, ordering_init P = Ok o /\ oP o = P /\ length (oPinv o) = length P /\
    (forall i, i < length P -> nth (nth i P 0) (oPinv o) 0 = i) /\
    (forall i, i < length P -> nth i (oPinv o) 0 < length P /\ nth (nth i (oPinv o) 0) P 0 = i).
Proof.
  intros HP. unfold ordering_init. set (n := length P).
  destruct (for_range_ind (fun i pinv => length pinv = n /\ forall k, k < i -> nth (nth k P 0) pinv 0 = k)
             0 n (fun i pinv => do pi <- get P i ;; upd pinv pi i) (repeat n n)) as (pinv & E & Lp & Hp); try lia.
  - split. apply repeat_length. intros; lia.
  - intros i pinv [_ Hi] [Lp Hk].
    rewrite (get_nth P i 0) by auto. cbn [bind].
    assert (Hr := perm_wf_range P i HP Hi). fold n in Hr.
    rewrite upd_lset by lia. eexists; split; [reflexivity|]. split; [now rewrite lset_length|].
    intros k Hk'. rewrite nth_lset by lia.
    destruct (Nat.eqb_spec (nth k P 0) (nth i P 0)) as [Eq|Ne].
    + apply perm_wf_inj in Eq; auto; unfold n in *; lia.
    + apply Hk. destruct (Nat.eq_dec k i); [subst; congruence|lia].
  - rewrite E. cbn [bind]. eexists; split; [reflexivity|]. simpl. split; auto. split; auto. split; auto.
    intros i Hi. destruct (perm_wf_surj P i HP Hi) as (k & Hk & Ek). subst i. rewrite Hp by auto. auto.
Qed.

Section PermVec.
Context {V : Type}.
Variable d : V.
Variable o : ordering.
Let P := oP o.
Let n := length P.

Theorem ord_perm_spec (x b : list V) : (forall i, i < n -> nth i P 0 < n) -> length x = n -> length b = n ->
  exists x', ord_perm o x b = Ok x' /\ length x' = n /\ forall j, j < n -> nth j x' d = nth (nth j P 0) b d.
Proof.
  intros Hr Hx Hb. unfold ord_perm. rewrite Hx.
  destruct (for_range_ind (fun j (y : list V) => length y = n /\ forall k, k < j -> nth k y d = nth (nth k P 0) b d)
     0 n (fun j x => do pj <- get (oP o) j ;; do v <- get b pj ;; upd x j v) x) as (x' & E & L' & H'); try lia.
  - split; auto. intros; lia.
  - intros j y [_ Hj] [Ly Hk]. fold P.
    rewrite (get_nth P j 0) by auto. cbn [bind]. rewrite (get_nth b (nth j P 0) d) by (rewrite Hb; auto). cbn [bind].
    rewrite upd_lset by lia. eexists; split; [reflexivity|]. split; [now rewrite lset_length|].
    intros k Hk'. rewrite nth_lset by lia. destruct (Nat.eqb_spec k j); [subst; auto|apply Hk; lia].
  - eauto.
Qed.

Theorem ord_permt_spec (x b : list V) : perm_wf P -> length x = n -> length b = n ->
  exists x', ord_permt o x b = Ok x' /\ length x' = n /\ forall j, j < n -> nth (nth j P 0) x' d = nth j b d.
Proof.
  intros HP Hx Hb. unfold ord_permt. rewrite Hx.
  destruct (for_range_ind (fun j (y : list V) => length y = n /\ forall k, k < j -> nth (nth k P 0) y d = nth k b d)
     0 n (fun j x => do pj <- get (oP o) j ;; do v <- get b j ;; upd x pj v) x) as (x' & E & L' & H'); try lia.
  - split; auto. intros; lia.
  - intros j y [_ Hj] [Ly Hk]. fold P.
    rewrite (get_nth P j 0) by auto. cbn [bind]. rewrite (get_nth b j d) by lia. cbn [bind].
    assert (Hr := perm_wf_range P j HP Hj). fold n in Hr.
    rewrite upd_lset by lia. eexists; split; [reflexivity|]. split; [now rewrite lset_length|].
    intros k Hk'. rewrite nth_lset by lia.
    destruct (Nat.eqb_spec (nth k P 0) (nth j P 0)) as [Eq|Ne].
    + apply perm_wf_inj in Eq; auto; try (unfold n in *; lia). subst; auto.
    + apply Hk. destruct (Nat.eq_dec k j); [subst; congruence|lia].
  - eauto.
Qed.

Lemma list_ext (l1 l2 : list V) : length l1 = length l2 -> (forall i, i < length l1 -> nth i l1 d = nth i l2 d) -> l1 = l2.
Proof. intros. eapply nth_ext; eauto. Qed.

(* perm and permt are mutually inverse (x0, x1: the vectors that are overwritten) *)
Theorem permt_perm_id (x0 x1 b : list V) : perm_wf P -> length x0 = n -> length x1 = n -> length b = n ->
  exists y z, ord_perm o x0 b = Ok y /\ ord_permt o x1 y = Ok z /\ z = b.
Proof.
  intros HP H0 H1 Hb.
  destruct (ord_perm_spec x0 b) as (y & Ey & Ly & Hy); auto. { intros; apply perm_wf_range; auto. }
  destruct (ord_permt_spec x1 y HP H1 Ly) as (z & Ez & Lz & Hz).
  exists y, z. split; auto. split; auto. apply list_ext; [lia|].
  intros i Hi. rewrite Lz in Hi. destruct (perm_wf_surj P i HP Hi) as (k & Hk & Ek). subst i.
  rewrite Hz by auto. apply Hy; auto.
Qed.

Theorem perm_permt_id (x0 x1 b : list V) : perm_wf P -> length x0 = n -> length x1 = n -> length b = n ->
  exists y z, ord_permt o x0 b = Ok y /\ ord_perm o x1 y = Ok z /\ z = b.
Proof.
  intros HP H0 H1 Hb.
  destruct (ord_permt_spec x0 b HP H0 Hb) as (y & Ey & Ly & Hy).
  destruct (ord_perm_spec x1 y) as (z & Ez & Lz & Hz); auto. { intros; apply perm_wf_range; auto. }
  exists y, z. split; auto. split; auto. apply list_ext; [lia|].
  intros i Hi. rewrite Lz in Hi. rewrite Hz by auto. apply Hy; auto.
Qed.
End PermVec.

(* ================= column pointers ================= *)
Lemma nondecb_step l i : nondecb l = true -> S i < length l -> nth i l 0 <= nth (S i) l 0.
Proof.
  revert i; induction l as [|a l IH]; intros i H Hi; simpl in Hi; [lia|].
  destruct l as [|b l]; [simpl in Hi; lia|].
  simpl in H. apply andb_true_iff in H. destruct H as [H1 H2]. apply Nat.leb_le in H1.
  destruct i; simpl; auto. apply IH; auto. simpl in *; lia.
Qed.
Lemma nondecb_mono l i j : nondecb l = true -> i <= j -> j < length l -> nth i l 0 <= nth j l 0.
Proof.
  intros H Hij Hj. induction Hij; auto. etransitivity; [apply IHHij; lia|]. apply nondecb_step; auto.
Qed.

Section WfFacts.
Context {V : Type}.
Variable A : csc V.
Hypothesis Hwf : wf_csc A = true.
Lemma wf_cp_len : length (colptr A) = S (ncols A).
Proof. unfold wf_csc in Hwf. rewrite !andb_true_iff in Hwf. apply Nat.eqb_eq; tauto. Qed.
Lemma wf_cp0 : nth 0 (colptr A) 0 = 0.
Proof.
  unfold wf_csc in Hwf. rewrite !andb_true_iff in Hwf. destruct Hwf as [[[[[H0 H1] _] _] _] _].
  apply Nat.eqb_eq in H0, H1. destruct (colptr A); simpl in *; [lia|auto].
Qed.
Lemma wf_cp_nondec : nondecb (colptr A) = true.
Proof. unfold wf_csc in Hwf. rewrite !andb_true_iff in Hwf. tauto. Qed.
Lemma wf_cp_last : nth (ncols A) (colptr A) 0 = length (rowind A).
Proof. unfold wf_csc in Hwf. rewrite !andb_true_iff in Hwf. apply Nat.eqb_eq; tauto. Qed.
Lemma wf_vals_len : length (vals A) = length (rowind A).
Proof. unfold wf_csc in Hwf. rewrite !andb_true_iff in Hwf. apply Nat.eqb_eq; tauto. Qed.
Lemma wf_rows p : p < length (rowind A) -> nth p (rowind A) 0 < nrows A.
Proof.
  intros Hp. unfold wf_csc in Hwf. rewrite !andb_true_iff in Hwf. destruct Hwf as [_ H].
  rewrite forallb_forall in H. apply Nat.ltb_lt. apply H. now apply nth_In.
Qed.
Lemma wf_col_range j : j < ncols A ->
  nth j (colptr A) 0 <= nth (S j) (colptr A) 0 /\ nth (S j) (colptr A) 0 <= length (rowind A).
Proof.
  intros Hj. split.
  - apply nondecb_step. apply wf_cp_nondec. rewrite wf_cp_len; lia.
  - rewrite <- wf_cp_last. apply nondecb_mono. apply wf_cp_nondec. lia. rewrite wf_cp_len; lia.
Qed.
End WfFacts.

(* ================= pre / post_mult_diagonal ================= *)
Section Scale.
Variable A : csc F.
Hypothesis Hwf : wf_csc A = true.
Variable diag : list F.

Let Ap := colptr A.
Let Ai := rowind A.

(* generic scaling loop: every stored value p of column j is multiplied by w j p *)
Lemma scale_cols (w : nat -> nat -> F) (body : nat -> nat -> list F -> res (list F)) :
  (forall j p (ax : list F), j < ncols A -> nth j Ap 0 <= p < nth (S j) Ap 0 -> length ax = length Ai ->
       body j p ax = Ok (lset ax p (nth p ax 0 * w j p)%Qc)) ->
  exists ax', for_range 0 (ncols A) (fun j ax =>
                 do lo <- get Ap j ;; do hi <- get Ap (S j) ;; for_range lo hi (body j) ax) (vals A) = Ok ax' /\
     length ax' = length Ai /\
     forall j p, j < ncols A -> nth j Ap 0 <= p < nth (S j) Ap 0 -> nth p ax' 0%Qc = (nth p (vals A) 0 * w j p)%Qc.
Proof.
  intros Hbody.
  destruct (for_range_ind (fun j (ax : list F) => length ax = length Ai /\
      (forall c p, c < j -> nth c Ap 0 <= p < nth (S c) Ap 0 -> nth p ax 0%Qc = (nth p (vals A) 0 * w c p)%Qc) /\
      (forall p, nth j Ap 0 <= p -> nth p ax 0%Qc = nth p (vals A) 0%Qc))
      0 (ncols A) (fun j ax => do lo <- get Ap j ;; do hi <- get Ap (S j) ;; for_range lo hi (body j) ax) (vals A))
    as (ax' & E & L' & H1 & _); try lia.
  - split. apply wf_vals_len; auto. split; auto. intros; lia.
  - intros j ax [_ Hj] (Lax & Hdone & Hrest).
    unfold Ap. rewrite (get_nth (colptr A) j 0) by (rewrite wf_cp_len; auto; lia). cbn [bind].
    rewrite (get_nth (colptr A) (S j) 0) by (rewrite wf_cp_len; auto; lia). cbn [bind]. fold Ap.
    destruct (wf_col_range A Hwf j Hj) as [Hle Hhi]. fold Ap Ai in Hle, Hhi.
    destruct (for_range_ind (fun p (ay : list F) => length ay = length Ai /\
        (forall q, q < nth j Ap 0 -> nth q ay 0%Qc = nth q ax 0%Qc) /\
        (forall q, nth j Ap 0 <= q < p -> nth q ay 0%Qc = (nth q (vals A) 0 * w j q)%Qc) /\
        (forall q, p <= q -> nth q ay 0%Qc = nth q (vals A) 0%Qc))
        (nth j Ap 0) (nth (S j) Ap 0) (body j) ax) as (ay & Ey & Lay & Hlow & Hmid & Hup); auto.
    + split; auto. split; auto. split; [intros; lia|]. intros; apply Hrest; auto.
    + intros p ay Hp (Lay & Hlow & Hmid & Hup).
      rewrite Hbody by auto. eexists; split; [reflexivity|].
      split; [now rewrite lset_length|]. split; [|split].
      * intros q Hq. rewrite nth_lset_other by lia. apply Hlow; auto.
      * intros q Hq. rewrite nth_lset by lia. destruct (Nat.eqb_spec q p).
        -- subst q. rewrite Hup by lia. auto.
        -- apply Hmid; lia.
      * intros q Hq. rewrite nth_lset_other by lia. apply Hup; lia.
    + rewrite Ey. eexists; split; [reflexivity|]. split; auto. split.
      * intros c p Hc Hp. destruct (Nat.eq_dec c j).
        -- subst c. apply Hmid; auto.
        -- rewrite Hlow. apply Hdone; auto; lia.
           assert (nth (S c) Ap 0 <= nth j Ap 0).
           { apply nondecb_mono. apply wf_cp_nondec; auto. lia. unfold Ap; rewrite wf_cp_len; auto; lia. }
           lia.
      * intros p Hp. apply Hup; auto.
  - eauto.
Qed.

Lemma csc_get_scaled (ax' : list F) (w : nat -> nat -> F) (c : nat -> nat -> F) i j :
  j < ncols A ->
  (forall p, nth j Ap 0 <= p < nth (S j) Ap 0 -> nth p ax' 0%Qc = (nth p (vals A) 0 * w j p)%Qc) ->
  (forall p, nth j Ap 0 <= p < nth (S j) Ap 0 -> nth p Ai 0 = i -> w j p = c i j) ->
  csc_get (mkcsc (nrows A) (ncols A) Ap Ai ax') i j = (csc_get A i j * c i j)%Qc.
Proof.
  intros Hj Hax Hw. unfold csc_get. simpl. fold Ap Ai.
  rewrite <- qsum_map_scale_r. apply qsum_map_ext. intros p Hp. apply in_seq in Hp.
  destruct (wf_col_range A Hwf j Hj) as [Hle _]. fold Ap in Hle.
  destruct (Nat.eqb_spec (nth p Ai 0) i).
  - rewrite Hax by lia. rewrite (Hw p) by (auto; lia). reflexivity.
  - fring.
Qed.

Theorem pre_mult_diagonal_spec : length diag = nrows A ->
  exists A', pre_mult_diagonal A diag = Ok A' /\
    nrows A' = nrows A /\ ncols A' = ncols A /\ colptr A' = colptr A /\ rowind A' = rowind A /\
    forall i j, j < ncols A -> csc_get A' i j = (nth i diag 0 * csc_get A i j)%Qc.
Proof.
  intros Hd. unfold pre_mult_diagonal.
  destruct (scale_cols (fun j p => nth (nth p Ai 0) diag 0%Qc)
     (fun j p ax => do r <- get (rowind A) p ;; do d <- get diag r ;; do v <- get ax p ;; upd ax p (v * d)%Qc))
    as (ax' & E & L' & H').
  - intros j p ax Hj Hp Lax. destruct (wf_col_range A Hwf j Hj) as [_ Hhi]. fold Ap Ai in Hhi.
    rewrite (get_nth (rowind A) p 0) by (fold Ai; lia). cbn [bind].
    rewrite (get_nth (A:=F) diag _ 0%Qc) by (rewrite Hd; apply wf_rows; auto; fold Ai; lia). cbn [bind].
    rewrite (get_nth (A:=F) ax p 0%Qc) by lia. cbn [bind]. rewrite upd_lset by lia. reflexivity.
  - cbv beta in E. unfold Ap, Ai in E. change Qc with F in *. rewrite E. cbn [bind]. eexists; split; [reflexivity|]. simpl. repeat (split; auto).
    intros i j Hj. fold Ap Ai.
    rewrite (csc_get_scaled ax' (fun j p => nth (nth p Ai 0) diag 0%Qc) (fun i j => nth i diag 0%Qc)); auto.
    + fring.
    + intros p Hp. apply (H' j p Hj Hp).
    + intros p Hp Er. now rewrite Er.
Qed.

Theorem post_mult_diagonal_spec : length diag = ncols A ->
  exists A', post_mult_diagonal A diag = Ok A' /\
    nrows A' = nrows A /\ ncols A' = ncols A /\ colptr A' = colptr A /\ rowind A' = rowind A /\
    forall i j, j < ncols A -> csc_get A' i j = (csc_get A i j * nth j diag 0)%Qc.
Proof.
  intros Hd. unfold post_mult_diagonal.
  assert (Eq : forall ax0,
     for_range 0 (ncols A) (fun j ax => do lo <- get (colptr A) j ;; do hi <- get (colptr A) (S j) ;;
        do d <- get diag j ;; for_range lo hi (fun p ax => do v <- get ax p ;; upd ax p (v * d)%Qc) ax) ax0 =
     for_range 0 (ncols A) (fun j ax => do lo <- get Ap j ;; do hi <- get Ap (S j) ;;
        for_range lo hi (fun p ax => do v <- get ax p ;; upd ax p (v * nth j diag 0)%Qc) ax) ax0).
  { intros ax0. unfold for_range. apply foldM_ext. intros j ax Hin. apply in_seq in Hin. fold Ap.
    destruct (get Ap j); cbn [bind]; auto. destruct (get Ap (S j)); cbn [bind]; auto.
    rewrite (get_nth (A:=F) diag j 0%Qc) by lia. cbn [bind]. reflexivity. }
  change Qc with F in *. rewrite Eq.
  destruct (scale_cols (fun j p => nth j diag 0%Qc)
     (fun j p ax => do v <- get ax p ;; upd ax p (v * nth j diag 0)%Qc)) as (ax' & E & L' & H').
  - intros j p ax Hj Hp Lax. destruct (wf_col_range A Hwf j Hj) as [_ Hhi]. fold Ap Ai in Hhi.
    rewrite (get_nth (A:=F) ax p 0%Qc) by lia. cbn [bind]. rewrite upd_lset by lia. reflexivity.
  - rewrite E. cbn [bind]. eexists; split; [reflexivity|]. simpl. repeat (split; auto).
    intros i j Hj. fold Ap Ai.
    apply (csc_get_scaled ax' (fun j p => nth j diag 0%Qc) (fun i j => nth j diag 0%Qc)); auto.
    all: try (intros p Hp; apply (H' j p Hj Hp)).
Qed.
End Scale.
