(* Properties_C13_refine.v -- C13: ITERATIVE REFINEMENT in the sparse back end (include/piqp/sparse/kkt.hpp:
   regularize_and_factorize(true) = static_kkt_diag_max / max_diag / reg / regularize_kkt / numeric factorisation /
   unregularize_kkt, and the refinement loop of solve(.., iterative_refinement = true)), model KKTSparseRefine.v (on top of
   KKTSparseSolve.v, which it extends conservatively), tied to sparse::KKT<xrat, int, Mode> for the four modes by
   tools/kktrefine_stage.py (factor flag, the stored values of PKPt after every factorisation, the eight solution blocks are
   EQUAL fractions under varied refinement settings; the loop is exercised with 0, 1, several iterations and all three exits).
   Vocabulary (KKTSparseRefine.v / KKTSparseRefineProofs.v):
     rset                    the six iterative_refinement_* settings (rs_reg_eps, rs_reg_rel, rs_eps_abs, rs_eps_rel, rs_max_iter : Z, rs_min_rate);
     kkt_regularize n N pinv rho delta reg K kd0 = Ok (Kr, kd)     regularize_kkt(reg) on the stored matrix K = PKPt (n = data.n, N = kkt_size(),
                             pinv = ordering.inv, kd0 = previous content of kkt_diag), kd = the saved diagonal;
     kkt_unregularize N Kr kd                                      unregularize_kkt();
     kkt_factorize_r rs refine md d c o K st = Ok (ok, st', K')    regularize_and_factorize(refine): flag, LDL^T object, PKPt afterwards;
     ksym_mv K v             PKPt.triangularView<Upper>() * v + PKPt.transpose().triangularView<StrictlyLower>() * v;
     kresid K rhs sol        rhs - ksym_mv K sol;    kres_norm K rhs sol = its infinity norm (the error_norm of the code);
     refine_loop rs K st rhs rhs_norm fuel sol err_corr error_norm   the for loop of solve, fuel = remaining iterations;
     refine_solves / refine_stop   the same control flow, returning the number of LDL^T solves / how the loop ended (StopTol | StopFuel | StopRate);
     refined_solve rs refine K st rhs_perm   first LDL^T solve + the loop (when refine && max_iter > 0);
     kkt_solve_r rs refine md d c o K st r   KKT::solve(.., refine) = kkt_rhs_perm ; refined_solve ; kkt_recover;
     dq kp c                 kp[c + 1] - 1, the position of the last stored entry of column c (where the code expects the diagonal).
   What is proved: see the statements.  The condition the code needs for the monotonicity of the residual is exactly
   1 <= iterative_refinement_min_improvement_rate (what Settings::verify_settings enforces); C13_refine_ex_needs_rate shows
   the conclusion fails for the rate 1/2.  A variant of the loop that keeps the refined candidate without the test
   "improvement_rate > 1" contradicts C13_refine_monotone on the instance of C13_refine_ex_rejects_worse (the candidate is
   strictly worse there); a regularisation with + delta_reg on the lower-right block contradicts C13_refine_regularize_values.
   NOT proved here:
     * no convergence statement: how much the residual improves (it need not: C13_refine_ex_rejects_worse);
     * the composition "exact LDL^T of the REGULARISED matrix" (C14_ldl_sparse_correct) with the loop, i.e. that sol0 solves
       (K + R) x = rhs exactly, is not stated; the theorems hold for ANY content of the LDL^T object st;
     * success (Ok) of kkt_regularize / kkt_factorize_r under the addressing facts established by init is not stated as a theorem
       (the theorems are of the form "if the run returns Ok ..."; C13_refine_unregularize_restores does conclude that the
       restoration itself succeeds);
     * the residual of the FULL 8-block system after recovery (un-permutation and elimination) is not related to kres_norm. *)
From PIQP Require Import Base CSC LDLSparse KKTSparseFull KKTSparseSolve KKTSparseRefine KKTSparseRefineProofs.
Local Open Scope Qc_scope.

(* ===== the model extends KKTSparseSolve.v conservatively ===== *)
Theorem C13_refine_extends_solve : forall (md : kmode) (d : sdata) (c : scal) (o : ordering) (st : ldl_i * ldl_v) (r : step8),
  kkt_solve_with (ldl_solve st) md d c o r = kkt_solve md d c o st r.
Proof. exact solve_with_plain. Qed.
Print Assumptions C13_refine_extends_solve.

Theorem C13_refine_factorize_off : forall (rs : rset) (md : kmode) (d : sdata) (c : scal) (o : ordering) (K : csc F) (st : ldl_i * ldl_v),
  kkt_factorize_r rs false md d c o K st = (do '(ok, st') <- kkt_factorize K st ;; Ok (ok, st', K)).
Proof. exact factorize_r_false. Qed.
Print Assumptions C13_refine_factorize_off.

(* ===== regularize_kkt / unregularize_kkt ===== *)
(* unregularize_kkt restores every stored value, for every ordering and addressing on which regularize_kkt ran without an index
   error (no hypothesis on pinv; the outer index has N + 1 entries) -- and the restoration itself cannot fail *)
Theorem C13_refine_unregularize_restores : forall (n N : nat) (pinv : list nat) (rho delta reg : F) (K : csc F) (kd0 : Vec) (Kr : csc F) (kd : Vec),
  length (colptr K) = S N ->
  kkt_regularize n N pinv rho delta reg K kd0 = Ok (Kr, kd) ->
  kkt_unregularize N Kr kd = Ok K.
Proof. exact unregularize_restores. Qed.
Print Assumptions C13_refine_unregularize_restores.

(* regularize_and_factorize(refine) leaves PKPt exactly as it found it, whatever the factorisation reports *)
Theorem C13_refine_factorize_restores : forall (rs : rset) (refine : bool) (md : kmode) (d : sdata) (c : scal) (o : ordering) (K : csc F)
    (st : ldl_i * ldl_v) (ok : bool) (st' : ldl_i * ldl_v) (K' : csc F),
  length (colptr K) = S (mode_N md d) ->
  kkt_factorize_r rs refine md d c o K st = Ok (ok, st', K') -> K' = K.
Proof. exact factorize_r_restores. Qed.
Print Assumptions C13_refine_factorize_restores.

(* what regularize_kkt writes when the diagonal addressing is one-to-one: + max(0, reg - rho) on the diagonal entries of the first
   n (un-permuted) columns, - max(0, reg - delta) on those of the columns n .. N-1, nothing else; pattern unchanged *)
Theorem C13_refine_regularize_values : forall (n N : nat) (pinv : list nat) (rho delta reg : F) (K : csc F) (kd0 : Vec) (Kr : csc F) (kd : Vec),
  length (colptr K) = S N -> (n <= N)%nat ->
  (forall a, (a < N)%nat -> (nth a pinv 0 < N)%nat) ->
  (forall a b, (a < N)%nat -> (b < N)%nat -> nth a pinv 0%nat = nth b pinv 0%nat -> a = b) ->
  (forall a b, (a < N)%nat -> (b < N)%nat -> dq (colptr K) a = dq (colptr K) b -> a = b) ->
  kkt_regularize n N pinv rho delta reg K kd0 = Ok (Kr, kd) ->
  nrows Kr = nrows K /\ ncols Kr = ncols K /\ colptr Kr = colptr K /\ rowind Kr = rowind K /\ length (vals Kr) = length (vals K) /\
  (forall col, (col < N)%nat ->
     nth (dq (colptr K) (nth col pinv 0%nat)) (vals Kr) 0 =
     nth (dq (colptr K) (nth col pinv 0%nat)) (vals K) 0 + (if (col <? n)%nat then qmax 0 (reg - rho) else - qmax 0 (reg - delta))) /\
  (forall j, (forall c, (c < N)%nat -> j <> dq (colptr K) c) -> nth j (vals Kr) 0 = nth j (vals K) 0).
Proof. exact regularize_values. Qed.
Print Assumptions C13_refine_regularize_values.

(* reg <= rho and reg <= delta (in particular reg <= 0): the regularisation is the identity and
   regularize_and_factorize(true) is regularize_and_factorize(false) *)
Theorem C13_refine_reg_small_is_plain : forall (rs : rset) (md : kmode) (d : sdata) (c : scal) (o : ordering) (K : csc F)
    (st : ldl_i * ldl_v) (reg : F) (ok : bool) (st' : ldl_i * ldl_v) (K' : csc F),
  length (colptr K) = S (mode_N md d) ->
  kkt_reg rs d c = Ok reg -> reg <= sc_rho c -> reg <= sc_delta c ->
  kkt_factorize_r rs true md d c o K st = Ok (ok, st', K') ->
  kkt_factorize K st = Ok (ok, st') /\ K' = K.
Proof. exact factorize_r_noop. Qed.
Print Assumptions C13_refine_reg_small_is_plain.

(* ===== the refinement loop ===== *)
(* the residual of the unregularised permuted system never increases: any fuel, any LDL^T object, any matrix, any tolerances *)
Theorem C13_refine_monotone_loop : forall (rs : rset) (K : csc F) (st : ldl_i * ldl_v) (rhs : Vec) (rhs_norm : F),
  1 <= rs_min_rate rs ->
  forall (fuel : nat) (sol err_corr : Vec) (error_norm : F) (r : Vec),
  error_norm = kres_norm K rhs sol ->
  refine_loop rs K st rhs rhs_norm fuel sol err_corr error_norm = Ok r ->
  kres_norm K rhs r <= error_norm.
Proof. exact refine_monotone_loop. Qed.
Print Assumptions C13_refine_monotone_loop.

(* ... at the level of solve: the permuted solution handed to un-permutation and recovery is at least as good as the first solve *)
Theorem C13_refine_monotone : forall (rs : rset) (refine : bool) (K : csc F) (st : ldl_i * ldl_v) (rhs_perm sol0 sol : Vec),
  1 <= rs_min_rate rs ->
  ldl_solve st rhs_perm = Ok sol0 ->
  refined_solve rs refine K st rhs_perm = Ok sol ->
  kres_norm K rhs_perm sol <= kres_norm K rhs_perm sol0.
Proof. exact refined_solve_monotone. Qed.
Print Assumptions C13_refine_monotone.

(* ... and of KKT::solve(.., refine) as a whole, for the four modes: condensation ; refined linear solve ; recovery *)
Theorem C13_refine_solve_spec : forall (rs : rset) (refine : bool) (md : kmode) (d : sdata) (c : scal) (o : ordering) (K : csc F)
    (st : ldl_i * ldl_v) (r v : step8),
  kkt_solve_r rs refine md d c o K st r = Ok v ->
  exists dinv zbar rhs rp sol0 sol,
    kkt_rhs_perm md d c o r = Ok (dinv, zbar, rhs, rp) /\
    ldl_solve st rp = Ok sol0 /\
    refined_solve rs refine K st rp = Ok sol /\
    kkt_recover md d c o r dinv zbar rhs sol = Ok v /\
    (1 <= rs_min_rate rs -> kres_norm K rp sol <= kres_norm K rp sol0).
Proof. exact kkt_solve_r_spec. Qed.
Print Assumptions C13_refine_solve_spec.

(* the plain solve in the same form: it recovers from sol0 *)
Theorem C13_refine_plain_solve_split : forall (md : kmode) (d : sdata) (c : scal) (o : ordering) (st : ldl_i * ldl_v) (r : step8),
  kkt_solve md d c o st r =
  (do '(dinv, zbar, rhs, rp) <- kkt_rhs_perm md d c o r ;; do sp <- ldl_solve st rp ;; kkt_recover md d c o r dinv zbar rhs sp).
Proof. exact kkt_solve_split. Qed.
Print Assumptions C13_refine_plain_solve_split.

(* a loop that ends by the tolerance test returns a solution within the tolerance *)
Theorem C13_refine_tolerance : forall (rs : rset) (K : csc F) (st : ldl_i * ldl_v) (rhs_perm sol0 sol : Vec),
  ldl_solve st rhs_perm = Ok sol0 ->
  refined_solve rs true K st rhs_perm = Ok sol -> (0 < rs_max_iter rs)%Z ->
  refine_stop rs K st rhs_perm (norm_inf rhs_perm) (Z.to_nat (rs_max_iter rs)) sol0 (kresid K rhs_perm sol0) (norm_inf (kresid K rhs_perm sol0)) = Ok StopTol ->
  kres_norm K rhs_perm sol <= rs_eps_abs rs + rs_eps_rel rs * norm_inf rhs_perm.
Proof. exact refined_solve_tol. Qed.
Print Assumptions C13_refine_tolerance.

(* an exact first solve (e.g. no effective regularisation) and a non-negative tolerance: refinement returns the first solve *)
Theorem C13_refine_exact_first_solve_noop : forall (rs : rset) (refine : bool) (K : csc F) (st : ldl_i * ldl_v) (rhs_perm sol0 : Vec),
  ldl_solve st rhs_perm = Ok sol0 -> length sol0 = length rhs_perm -> nrows K = length rhs_perm -> ncols K = length rhs_perm ->
  kres_norm K rhs_perm sol0 = 0 -> 0 <= rs_eps_abs rs + rs_eps_rel rs * norm_inf rhs_perm ->
  refined_solve rs refine K st rhs_perm = Ok sol0.
Proof. exact refined_solve_exact_noop. Qed.
Print Assumptions C13_refine_exact_first_solve_noop.

(* at most max_iter extra LDL^T solves *)
Theorem C13_refine_fuel_bound : forall (rs : rset) (K : csc F) (st : ldl_i * ldl_v) (rhs_perm sol : Vec),
  refined_solve rs true K st rhs_perm = Ok sol -> (0 < rs_max_iter rs)%Z ->
  exists sol0 k, ldl_solve st rhs_perm = Ok sol0 /\
    refine_solves rs K st rhs_perm (norm_inf rhs_perm) (Z.to_nat (rs_max_iter rs)) sol0 (kresid K rhs_perm sol0) (norm_inf (kresid K rhs_perm sol0)) = Ok k /\
    (Z.of_nat k <= rs_max_iter rs)%Z.
Proof. exact refined_solve_fuel. Qed.
Print Assumptions C13_refine_fuel_bound.

(* the counters are defined whenever the loop is *)
Theorem C13_refine_loop_solves : forall (rs : rset) (K : csc F) (st : ldl_i * ldl_v) (rhs : Vec) (rhs_norm : F)
    (fuel : nat) (sol err_corr : Vec) (error_norm : F) (r : Vec),
  refine_loop rs K st rhs rhs_norm fuel sol err_corr error_norm = Ok r ->
  exists k how, refine_solves rs K st rhs rhs_norm fuel sol err_corr error_norm = Ok k /\ (k <= fuel)%nat /\
                refine_stop rs K st rhs rhs_norm fuel sol err_corr error_norm = Ok how.
Proof. exact refine_loop_solves. Qed.
Print Assumptions C13_refine_loop_solves.

(* refinement off or max_iter <= 0: solve is the plain kkt_solve of KKTSparseSolve.v on whatever factorisation st holds
   (after regularize_and_factorize(true): the regularised one) *)
Theorem C13_refine_off_is_plain : forall (rs : rset) (refine : bool) (md : kmode) (d : sdata) (c : scal) (o : ordering) (K : csc F)
    (st : ldl_i * ldl_v) (r : step8),
  refine = false \/ (rs_max_iter rs <= 0)%Z ->
  kkt_solve_r rs refine md d c o K st r = kkt_solve md d c o st r.
Proof. exact kkt_solve_r_off. Qed.
Print Assumptions C13_refine_off_is_plain.

(* ===== non-vacuity (evaluated; KKT_FULL, n = 1, p = 1, P = [2], A = [1], rho = delta = 1/1024, identity ordering) ===== *)
(* ex_chain rs rp = (factor flag, PKPt restored, refined = first solution, residual strictly smaller, residual strictly larger,
                     first candidate strictly worse than the first solution, extra LDL^T solves, exit) *)
(* reg = 1/4, min rate 5, max_iter 10: 8 extra solves, tolerance exit, the residual strictly improves *)
Example C13_refine_ex_improves :
  ex_chain (ex_rs (exq 1 4) (exq 5 1) 10) [exq 1 1; exq 1 1] = Ok (true, true, false, true, false, false, 8%nat, StopTol).
Proof. exact ex_refine_improves. Qed.
Print Assumptions C13_refine_ex_improves.

Example C13_refine_ex_improves_exists : exists st0 st sol0 sol,
  kkt_symbolic ex_K = Ok st0 /\
  kkt_factorize_r (ex_rs (exq 1 4) (exq 5 1) 10) true MFull ex_d ex_c ex_o ex_K st0 = Ok (true, st, ex_K) /\
  ldl_solve st [exq 1 1; exq 1 1] = Ok sol0 /\
  refined_solve (ex_rs (exq 1 4) (exq 5 1) 10) true ex_K st [exq 1 1; exq 1 1] = Ok sol /\
  kres_norm ex_K [exq 1 1; exq 1 1] sol < kres_norm ex_K [exq 1 1; exq 1 1] sol0.
Proof. exact ex_refine_improves_exists. Qed.
Print Assumptions C13_refine_ex_improves_exists.

(* reg = 4 and a right-hand side whose first refinement step is strictly worse: the candidate is rejected (rates 5 and 1) *)
Example C13_refine_ex_rejects_worse :
  ex_chain (ex_rs (exq 4 1) (exq 5 1) 10) [exq (-7) 4; exq 3 4] = Ok (true, true, true, false, false, true, 1%nat, StopRate) /\
  ex_chain (ex_rs (exq 4 1) (exq 1 1) 10) [exq (-7) 4; exq 3 4] = Ok (true, true, true, false, false, true, 1%nat, StopRate).
Proof. exact ex_refine_rejects_worse. Qed.
Print Assumptions C13_refine_ex_rejects_worse.

(* the hypothesis 1 <= min_improvement_rate is necessary: rate 1/2 returns a strictly larger residual than the first solve *)
Example C13_refine_ex_needs_rate :
  ex_chain (ex_rs (exq 4 1) (exq 1 2) 3) [exq (-7) 4; exq 3 4] = Ok (true, true, false, false, true, true, 3%nat, StopFuel).
Proof. exact ex_refine_needs_rate. Qed.
Print Assumptions C13_refine_ex_needs_rate.

(* the hypotheses of C13_refine_regularize_values are satisfiable, and the predicted values are the computed ones *)
Example C13_refine_ex_regularize_values :
  length (colptr ex_K) = 3%nat /\ (1 <= 2)%nat /\
  (forall a, (a < 2)%nat -> (nth a (oPinv ex_o) 0 < 2)%nat) /\
  (forall a b, (a < 2)%nat -> (b < 2)%nat -> nth a (oPinv ex_o) 0%nat = nth b (oPinv ex_o) 0%nat -> a = b) /\
  (forall a b, (a < 2)%nat -> (b < 2)%nat -> dq (colptr ex_K) a = dq (colptr ex_K) b -> a = b) /\
  exists kd, kkt_regularize 1 2 (oPinv ex_o) ex_rho ex_delta (exq 1 4) ex_K [0; 0] =
             Ok (set_vals ex_K [exq 2 1 + ex_rho + (exq 1 4 - ex_rho); exq 1 1; - ex_delta - (exq 1 4 - ex_delta)], kd).
Proof. exact ex_regularize_values. Qed.
Print Assumptions C13_refine_ex_regularize_values.
