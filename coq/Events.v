(* Events.v -- C05: the statement order of an API call as an event list, and its interpreter.
   Stdlib only, definitions only (proofs: EventsProofs.v).  The event lists themselves are NOT here: they are
   regenerated from /repo/include/piqp/solver.hpp by tools/gen_events.py into gen/Events.v on every run.

   An API call (update(), solve()) is abstracted to the sequence of its statements, each classified as

     Guard id arg cond ret reports gmut
        `if (cond) { ...; return ...; }`  -- a rejection.  [arg] names the argument the condition concerns,
        [reports] are the reporting statements of the body (error print, `m_result.info.status = ...`),
        [gmut] the OTHER state-changing statements of the body (must be empty for a clean rejection),
        [ret = None]   the return leaves the API call,
        [ret = Some k] the return only leaves an inlined callee of which k events follow the guard: the caller
                       continues after them (this is how solve() continues after solve_impl() returned early).
     Mutate what   any statement that changes solver state (data, preconditioner, KKT, result vectors, flags)
     Pure what     timers, prints, local declarations, timing fields of info

   `if (c) { ... }` blocks that do not return are flattened: whether an event is executed is decided by an
   arbitrary oracle ([active]), as is the outcome of every guard ([rejects]); both may depend on the current state
   and on the position of the event.  So every theorem quantified over oracles covers every combination of
   optional arguments, settings and argument sizes.

   A loop whose body contains a guard is kept as a [Loop] segment and unrolled k times; EventsProofs.v shows that
   the order property of the 2-fold unrolling implies that of every k-fold unrolling. *)
From Coq Require Import String List Bool Arith.
Import ListNotations.

Inductive event : Type :=
| Guard (id : nat) (arg : string) (cond : string) (ret : option nat) (reports : list string) (gmut : list string)
| Mutate (what : string)
| Pure (what : string).

Inductive segment : Type :=
| Straight (l : list event)
| Loop (hdr : string) (body : list event).

Fixpoint rep {A : Type} (k : nat) (l : list A) : list A :=
  match k with 0 => [] | S k' => l ++ rep k' l end.

Definition unroll_seg (k : nat) (s : segment) : list event :=
  match s with Straight l => l | Loop _ b => rep k b end.

Definition unroll (k : nat) (segs : list segment) : list event := flat_map (unroll_seg k) segs.

(* ---------------------------------------------------------------- classification helpers *)
Definition is_mut (e : event) : bool := match e with Mutate _ => true | _ => false end.
Definition is_guard (e : event) : bool := match e with Guard _ _ _ _ _ _ => true | _ => false end.
Definition has_mut (l : list event) : bool := existsb is_mut l.
Definition has_guard (l : list event) : bool := existsb is_guard l.

(* a guard whose return leaves the API call *)
Definition is_flat (e : event) : bool :=
  match e with Guard _ _ _ (Some _) _ _ => false | _ => true end.
Definition flat (l : list event) : bool := forallb is_flat l.

Definition nonempty {A : Type} (l : list A) : bool := match l with [] => false | _ => true end.
Definition isnil {A : Type} (l : list A) : bool := match l with [] => true | _ => false end.

(* the guard itself is a clean rejection: it reports, and changes nothing else; if it only leaves a callee, nothing
   that is executed afterwards changes state *)
Definition guard_wf (e : event) (rest : list event) : bool :=
  match e with
  | Guard _ _ _ ret reports gmut =>
      isnil gmut && nonempty reports &&
      match ret with None => true | Some k => negb (has_mut (skipn k rest)) end
  | _ => true
  end.

(* THE decision procedure: every guard precedes every mutation, and every guard is a clean rejection *)
Fixpoint checks_first (l : list event) : bool :=
  match l with
  | [] => true
  | Mutate _ :: r => negb (has_guard r)
  | Pure _ :: r => checks_first r
  | (Guard _ _ _ _ _ _ as g) :: r => guard_wf g r && checks_first r
  end.

(* ---------------------------------------------------------------- before setup(): nothing is read before the test *)
(* Data::{n,p,m,n_lb,n_ub} and Info are not initialised by the constructor.  The decidable condition: the first guard
   of the call is the set-up test, it leaves the API call, and every event before it is a Pure statement whose text
   mentions neither the problem data, the result, the KKT object nor the preconditioner. *)
Fixpoint prefixb (p s : string) : bool :=
  match p, s with
  | EmptyString, _ => true
  | String a p', String b s' => Ascii.eqb a b && prefixb p' s'
  | String _ _, EmptyString => false
  end.
Fixpoint contains (p s : string) : bool :=
  prefixb p s || match s with EmptyString => false | String _ s' => contains p s' end.
Definition mentions_state (w : string) : bool :=
  contains "m_data" w || contains "m_result" w || contains "m_kkt" w || contains "m_preconditioner" w.
Fixpoint setup_checked_first (l : list event) : bool :=
  match l with
  | [] => false
  | Guard _ arg _ None _ _ :: _ => String.eqb arg "setup"
  | Guard _ _ _ (Some _) _ _ :: _ => false
  | Mutate _ :: _ => false
  | Pure w :: r => negb (mentions_state w) && setup_checked_first r
  end.

(* loops are only supported in calls all of whose guards leave the API call *)
Definition is_loop (s : segment) : bool := match s with Loop _ _ => true | _ => false end.
Definition loops_ok (segs : list segment) : bool :=
  negb (existsb is_loop segs) || flat (unroll 1 segs).

(* ---------------------------------------------------------------- interpreter *)
Section Run.
  Variable St : Type.                       (* abstract solver state *)
  Variable apply : string -> St -> St.      (* meaning of a state-changing statement: arbitrary *)

  Record oracle : Type := {
    active : St -> nat -> bool;             (* is the event at this position executed (enclosing if-conditions) *)
    rejects : St -> nat -> bool             (* does the guard at this position fire *)
  }.

  Record outcome : Type := { state : St; rejected : bool; log : list string }.

  Definition apply_all (ws : list string) (s : St) : St := fold_left (fun s w => apply w s) ws s.

  (* [i] position of the head of [l] in the whole list, [rj] a guard fired earlier in this call,
     [lg] report log, [sk] number of events still to be skipped (return from an inlined callee) *)
  Fixpoint run (o : oracle) (l : list event) (i : nat) (s : St) (rj : bool) (lg : list string) (sk : nat) : outcome :=
    match l with
    | [] => {| state := s; rejected := rj; log := lg |}
    | e :: r =>
        match sk with
        | S sk' => run o r (S i) s rj lg sk'
        | 0 =>
            if active o s i then
              match e with
              | Pure _ => run o r (S i) s rj lg 0
              | Mutate w => run o r (S i) (apply w s) rj lg 0
              | Guard _ _ _ ret reports gmut =>
                  if rejects o s i then
                    match ret with
                    | None => {| state := apply_all gmut s; rejected := true; log := lg ++ reports |}
                    | Some k => run o r (S i) (apply_all gmut s) true (lg ++ reports) k
                    end
                  else run o r (S i) s rj lg 0
              end
            else run o r (S i) s rj lg 0
        end
    end.

  Definition run_call (o : oracle) (l : list event) (s : St) : outcome := run o l 0 s false [] 0.

  (* what a call in which no guard fires does: every active mutation, in order *)
  Fixpoint exec_all (o : oracle) (l : list event) (i : nat) (s : St) : St :=
    match l with
    | [] => s
    | e :: r =>
        if active o s i then
          match e with
          | Mutate w => exec_all o r (S i) (apply w s)
          | _ => exec_all o r (S i) s
          end
        else exec_all o r (S i) s
    end.

  (* ---------- histories of calls (T4) ---------- *)
  Variable Obs : Type.
  Variable observe : St -> Obs.             (* everything a user can read back from the solver *)

  Record call : Type := { c_events : list event; c_oracle : oracle }.

  Record call_result : Type := { r_rejected : bool; r_log : list string; r_obs : Obs }.

  Definition do_call (c : call) (s : St) : St * call_result :=
    let o := run_call (c_oracle c) (c_events c) s in
    (state o, {| r_rejected := rejected o; r_log := log o; r_obs := observe (state o) |}).

  Fixpoint run_history (h : list call) (s : St) : St * list call_result :=
    match h with
    | [] => (s, [])
    | c :: t =>
        let (s1, r1) := do_call c s in
        let (s2, rs) := run_history t s1 in
        (s2, r1 :: rs)
    end.
End Run.

Arguments active {St} _ _ _.
Arguments rejects {St} _ _ _.
Arguments state {St} _.
Arguments rejected {St} _.
Arguments log {St} _.
Arguments Build_oracle {St} _ _.
