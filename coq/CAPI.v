(** C16 -- model of the C interface (interfaces/c/src/piqp.cpp) as a layer over an ABSTRACT C++ solver.
    Definitions only (executable); proofs are in CAPIProofs.v.

    What is modelled here (hand-written from piqp.cpp, tied to the code by harness/drv_capi.cpp):
      * the Eigen maps of the caller's arrays: row-major dense (Eigen::Map<Matrix<.., RowMajor>>(data, rows, cols)),
        CSC (Eigen::Map<SparseMatrix>(m, n, nnz, p, i, x)), vectors (Eigen::Map<Vec>(data, len)), NULL -> nullopt;
      * which dimensions each map is built with (data->n/p/m at setup, workspace->solver_info.n/p/m at update,
        the piqp_csc's own m/n for sparse matrices) and which pointers are tested against NULL;
      * the call structure of piqp_setup_*, piqp_update_settings, piqp_update_*, piqp_solve (which C++ member is
        called, and that piqp_update_result runs after setup and after solve but NOT after update).
    What is taken from the regenerated tables (gen/Tables.v, translator tools/gen_tables.py):
      * the assignment lists of piqp_update_result, piqp_set_default_settings, piqp_update_settings (both branches).
    What is abstract (Section variables -- nothing is assumed about them):
      * the C++ solver: the state types, Settings<T>{} , setup / update / solve / result of DenseSolver and
        SparseSolver, the meaning of the C casts ((piqp_int), (piqp_status), implicit conversions);
      * a result pointer is the symbolic address "data() of the C++ result vector named g"; reading through it yields
        the CURRENT contents of that vector (i.e. the vectors are assumed not to be reallocated between
        piqp_update_result and the read -- the harness checks pointer identity with data() after every call). *)
From Coq Require Import String List Arith Bool Lia.
From PIQP Require Import TablesDef TablesCheck.
Import ListNotations.

Set Implicit Arguments.
Open Scope nat_scope.

(* ------------------------------------------------------------------------------------------------ *)
(** * (a) row-major dense maps *)
Section RowMajor.
Variable V : Type.
Variable d : V.     (* default for out-of-range reads; never observed inside the stated bounds *)

(** the caller's array cut into [r] rows of [c] consecutive elements *)
Fixpoint chunks (r c : nat) (data : list V) : list (list V) :=
  match r with
  | 0 => []
  | S r' => firstn c data :: chunks r' c (skipn c data)
  end.

Definition col_of (rows : list (list V)) (j : nat) : list V := map (fun row => nth j row d) rows.
Definition row_of (cols : list (list V)) (i : nat) : list V := map (fun col => nth i col d) cols.

(** Eigen::Map<Matrix<T,Dynamic,Dynamic,RowMajor>>(data, r, c) as the list of its columns
    (the representation of dense matrices in the solver model, Base.Mat) *)
Definition rowmajor_to_cols (r c : nat) (data : list V) : list (list V) :=
  map (col_of (chunks r c data)) (seq 0 c).

(** inverse: lay the rows of a column-list matrix out one after the other *)
Definition cols_to_rowmajor (r : nat) (cols : list (list V)) : list V :=
  concat (map (row_of cols) (seq 0 r)).

Definition mat_shape (r c : nat) (M : list (list V)) : Prop :=
  length M = c /\ Forall (fun col => length col = r) M.

(** transposed matrix as column lists (what setup stores: AT = A^T, GT = G^T) *)
Definition transpose_cols (r : nat) (cols : list (list V)) : list (list V) := map (row_of cols) (seq 0 r).

(** P.triangularView<Upper>(): entries strictly below the diagonal replaced by [z] *)
Definition utri (z : V) (cols : list (list V)) : list (list V) :=
  map (fun jc => map (fun iv => if (fst iv <=? fst jc)%nat then snd iv else z) (combine (seq 0 (length (snd jc))) (snd jc)))
      (combine (seq 0 (length cols)) cols).
End RowMajor.

(* ------------------------------------------------------------------------------------------------ *)
(** * (b) compressed sparse column maps *)
Section CSC.
Variable V : Type.
Variable z : V.     (* the value of an entry that is not stored *)

(** the piqp_csc struct: m rows, n columns, nnz stored entries, p (n+1 column starts), i (row indices), x (values) *)
Record csc := mkCsc { csc_m : nat; csc_n : nat; csc_nnz : nat; csc_p : list nat; csc_i : list nat; csc_x : list V }.

Definition seg {A} (lo hi : nat) (l : list A) : list A := firstn (hi - lo) (skipn lo l).

Definition csc_col_rows (M : csc) (j : nat) : list nat := seg (nth j (csc_p M) 0) (nth (S j) (csc_p M) 0) (csc_i M).
Definition csc_col_vals (M : csc) (j : nat) : list V := seg (nth j (csc_p M) 0) (nth (S j) (csc_p M) 0) (csc_x M).

Fixpoint lookup_row (i : nat) (rows : list nat) (vals : list V) : V :=
  match rows, vals with
  | r :: rows', v :: vals' => if r =? i then v else lookup_row i rows' vals'
  | _, _ => z
  end.

(** denotation: element (i,j) of Eigen::Map<SparseMatrix<T,ColMajor,I>>(m, n, nnz, p, i, x) *)
Definition csc_get (M : csc) (i j : nat) : V := lookup_row i (csc_col_rows M j) (csc_col_vals M j).

Definition csc_to_cols (M : csc) : list (list V) :=
  map (fun j => map (fun i => csc_get M i j) (seq 0 (csc_m M))) (seq 0 (csc_n M)).

Fixpoint incb (l : list nat) : bool :=     (* strictly increasing *)
  match l with
  | a :: (b :: _) as t => (a <? b) && incb t
  | _ => true
  end.

(** well-formedness (compressed storage as Eigen expects it): n+1 column starts from 0 to nnz, non-decreasing;
    at least nnz row indices and values (the caller's arrays may be longer); within each column the row indices
    are strictly increasing and smaller than m *)
Definition csc_wfb (M : csc) : bool :=
  (length (csc_p M) =? S (csc_n M)) && (nth 0 (csc_p M) 0 =? 0) && (nth (csc_n M) (csc_p M) 0 =? csc_nnz M) &&
  (csc_nnz M <=? length (csc_i M)) && (csc_nnz M <=? length (csc_x M)) &&
  forallb (fun j => (nth j (csc_p M) 0 <=? nth (S j) (csc_p M) 0) && (nth (S j) (csc_p M) 0 <=? csc_nnz M) &&
                    incb (csc_col_rows M j) && forallb (fun r => r <? csc_m M) (csc_col_rows M j)) (seq 0 (csc_n M)).

Definition csc_wf (M : csc) : Prop := csc_wfb M = true.

(** the encoding used by the harness: column by column, entries with [isz v = true] dropped *)
Definition col_entries (isz : V -> bool) (col : list V) : list (nat * V) :=
  filter (fun e => negb (isz (snd e))) (combine (seq 0 (length col)) col).

Fixpoint starts (acc : nat) (ls : list nat) : list nat :=
  match ls with [] => [acc] | l :: r => acc :: starts (acc + l) r end.

Definition csc_of_cols (isz : V -> bool) (m : nat) (cols : list (list V)) : csc :=
  let ents := map (col_entries isz) cols in
  {| csc_m := m; csc_n := length cols; csc_nnz := length (concat ents);
     csc_p := starts 0 (map (@length _) ents);
     csc_i := map fst (concat ents); csc_x := map snd (concat ents) |}.
End CSC.

(* ------------------------------------------------------------------------------------------------ *)
(** * (c) pointers and optional arguments *)
Inductive cptr (A : Type) : Type := PNull | PTo (a : A).
Arguments PNull {A}.

(** piqp_optional_vec_map / piqp_optional_mat_map / piqp_optional_sparse_mat_map: NULL <-> nullopt *)
Definition opt_of_ptr {A} (p : cptr A) : option A := match p with PNull => None | PTo a => Some a end.

(** outer [option] of every C-level function: [None] = undefined behaviour (outside the C contract): a mandatory pointer
    is NULL, an array is shorter than the map built over it, a call on a workspace of the other kind or before setup *)
Definition ubind {A B} (x : option A) (f : A -> option B) : option B := match x with Some a => f a | None => None end.
Notation "'ubd' x <- e ;; f" := (ubind e (fun x => f)) (at level 200, x name, e at level 100, f at level 200).

(** generic field stores and assignment lists *)
Section Stores.
Variable X : Type.
Definition store := string -> X.
Definition supd (e : store) (f : string) (v : X) : store := fun g => if String.eqb g f then v else e g.
(** run the assignments [key w := val w] in order *)
Fixpoint assign (ws : list wire) (key : wire -> string) (val : wire -> X) (dst : store) : store :=
  match ws with
  | [] => dst
  | w :: r => assign r key val (supd dst (key w) (val w))
  end.
End Stores.

Definition conv_of (ws : list wire) (f : string) : string :=
  match find (fun w => String.eqb (w_ext w) f) ws with Some w => w_conv w | None => EmptyString end.

Definition timing_fields : list string := ["setup_time"; "update_time"; "solve_time"; "run_time"]%string.

(* ------------------------------------------------------------------------------------------------ *)
(** * (d) the C API over an abstract C++ solver *)
Section CAPI.
Variable V : Type.          (* piqp_float values *)
Variable d : V.             (* filler, see RowMajor *)
Variable SV : Type.         (* values of settings / info fields (floating, integer, bool, enum) *)
Variable cast : string -> SV -> SV.   (* meaning of the conversion named in a wire: "", "(piqp_int)", "(piqp_status)" *)
Variable T : Tables.        (* instantiated with gen_tables in Properties_C16.v *)

Definition env := store SV.
Definition dmat := list (list V).       (* dense matrix as column lists *)
Definition smat := csc V.

(** arguments of DenseSolver/SparseSolver::setup and ::update (M = matrix type) *)
Record xsetup (M : Type) := mkXSetup { xs_P : M; xs_c : list V; xs_A : option M; xs_b : option (list V);
  xs_G : option M; xs_h : option (list V); xs_lb : option (list V); xs_ub : option (list V) }.
Record xupdate (M : Type) := mkXUpdate { xu_P : option M; xu_c : option (list V); xu_A : option M; xu_b : option (list V);
  xu_G : option M; xu_h : option (list V); xu_lb : option (list V); xu_ub : option (list V) }.

(** piqp::Result<T>: the vectors by name and the Info fields by name *)
Record xresult := mkXResult { xr_vec : string -> list V; xr_info : env }.

(** the abstract C++ solver.  A solver object is a pair (m_settings, everything else). *)
Variable DK SK : Type.
Variable x_default : env.               (* piqp::Settings<T>{} *)
Variable d_new : DK.                    (* new DenseSolver(), minus the settings *)
Variable s_new : SK.
Variable d_setup : env * DK -> xsetup dmat -> env * DK.
Variable s_setup : env * SK -> xsetup smat -> env * SK.
Variable d_update : env * DK -> xupdate dmat -> env * DK.
Variable s_update : env * SK -> xupdate smat -> env * SK.
Variable d_solve : env * DK -> (env * DK) * SV.       (* new state and returned Status *)
Variable s_solve : env * SK -> (env * SK) * SV.
Variable d_result : DK -> xresult.                    (* solver->result() *)
Variable s_result : SK -> xresult.

Inductive xsolver := XD (st : env * DK) | XS (st : env * SK).

Definition x_result (s : xsolver) : xresult :=
  match s with XD st => d_result (snd st) | XS st => s_result (snd st) end.
Definition x_settings (s : xsolver) : env := match s with XD st => fst st | XS st => fst st end.
Definition x_set (s : xsolver) (f : string) (v : SV) : xsolver :=     (* solver->settings().f = v *)
  match s with XD st => XD (supd (fst st) f v, snd st) | XS st => XS (supd (fst st) f v, snd st) end.

(** ** the C++-level call language and its runner *)
Inductive xcall :=
| XNewDense | XNewSparse                       (* new DenseSolver() / new SparseSolver<piqp_float, piqp_int>() *)
| XSet (f : string) (v : SV)                   (* solver->settings().f = v *)
| XSetupD (a : xsetup dmat) | XSetupS (a : xsetup smat)
| XUpdateD (a : xupdate dmat) | XUpdateS (a : xupdate smat)
| XSolve
| XResult.                                     (* read solver->result() *)

(** state of a C++-level run: the solver object, the last result() read, the last value returned by solve() *)
Record xrun := mkXRun { xst : option xsolver; xsnap : option xresult; xret : option SV }.
Definition xrun0 : xrun := mkXRun None None None.

Definition x_step (r : xrun) (c : xcall) : option xrun :=
  match c, xst r with
  | XNewDense, _ => Some (mkXRun (Some (XD (x_default, d_new))) None None)
  | XNewSparse, _ => Some (mkXRun (Some (XS (x_default, s_new))) None None)
  | XSet f v, Some s => Some (mkXRun (Some (x_set s f v)) (xsnap r) (xret r))
  | XSetupD a, Some (XD st) => Some (mkXRun (Some (XD (d_setup st a))) (xsnap r) (xret r))
  | XSetupS a, Some (XS st) => Some (mkXRun (Some (XS (s_setup st a))) (xsnap r) (xret r))
  | XUpdateD a, Some (XD st) => Some (mkXRun (Some (XD (d_update st a))) (xsnap r) (xret r))
  | XUpdateS a, Some (XS st) => Some (mkXRun (Some (XS (s_update st a))) (xsnap r) (xret r))
  | XSolve, Some (XD st) => let '(st', v) := d_solve st in Some (mkXRun (Some (XD st')) (xsnap r) (Some v))
  | XSolve, Some (XS st) => let '(st', v) := s_solve st in Some (mkXRun (Some (XS st')) (xsnap r) (Some v))
  | XResult, Some s => Some (mkXRun (Some s) (Some (x_result s)) (xret r))
  | _, _ => None                               (* a member call without an object / of the other class: does not type-check in C++ *)
  end.

Fixpoint x_run (r : xrun) (cs : list xcall) : option xrun :=
  match cs with [] => Some r | c :: t => ubd r' <- x_step r c ;; x_run r' t end.

(** ** the C level *)
(** piqp_data_dense (M = flat row-major array) / piqp_data_sparse (M = piqp_csc) *)
Record c_data (M : Type) := mkCData { cd_n : nat; cd_p : nat; cd_m : nat; cd_P : cptr M; cd_c : cptr (list V);
  cd_A : cptr M; cd_b : cptr (list V); cd_G : cptr M; cd_h : cptr (list V); cd_lb : cptr (list V); cd_ub : cptr (list V) }.

Inductive ccall :=
| CSetupDense (data : c_data (list V)) (settings : cptr env)
| CSetupSparse (data : c_data smat) (settings : cptr env)
| CUpdateSettings (settings : env)
| CUpdateDense (P c A b G h lb ub : cptr (list V))
| CUpdateSparse (P : cptr smat) (c : cptr (list V)) (A : cptr smat) (b : cptr (list V)) (G : cptr smat) (h lb ub : cptr (list V))
| CSolve.

(** piqp_workspace: the solver behind the handle (its class = solver_info.is_dense), solver_info.n/p/m, and *result:
    the pointer fields (None = never assigned; Some g = address of the C++ result vector g) and the by-value piqp_info *)
Record cwork := mkCWork { w_solver : xsolver; w_n : nat; w_p : nat; w_m : nat;
  w_ptr : store (option string); w_info : store (option SV); w_ret : option SV }.

(** Eigen::Map<CVec>(data, len) *)
Definition view_vec (len : nat) (a : list V) : option (list V) :=
  if len <=? length a then Some (firstn len a) else None.
(** Eigen::Map<CMat>(data, r, c) *)
Definition view_mat (r c : nat) (a : list V) : option dmat :=
  if r * c <=? length a then Some (rowmajor_to_cols d r c a) else None.

Definition opt_vec_map (p : cptr (list V)) (len : nat) : option (option (list V)) :=
  match opt_of_ptr p with None => Some None | Some a => option_map (@Some _) (view_vec len a) end.
Definition opt_mat_map (p : cptr (list V)) (r c : nat) : option (option dmat) :=
  match opt_of_ptr p with None => Some None | Some a => option_map (@Some _) (view_mat r c a) end.
(** the CSC map views the struct's arrays with the struct's own dimensions: the identity on the model *)
Definition opt_csc_map (p : cptr smat) : option (option smat) := Some (opt_of_ptr p).

Definition must {A} (p : cptr A) : option A := opt_of_ptr p.     (* dereferenced without a test: NULL is undefined *)

Definition dense_setup_args (D : c_data (list V)) : option (xsetup dmat) :=
  ubd Pa <- must (cd_P D) ;; ubd P <- view_mat (cd_n D) (cd_n D) Pa ;;
  ubd ca <- must (cd_c D) ;; ubd c <- view_vec (cd_n D) ca ;;
  ubd A <- opt_mat_map (cd_A D) (cd_p D) (cd_n D) ;; ubd b <- opt_vec_map (cd_b D) (cd_p D) ;;
  ubd G <- opt_mat_map (cd_G D) (cd_m D) (cd_n D) ;; ubd h <- opt_vec_map (cd_h D) (cd_m D) ;;
  ubd lb <- opt_vec_map (cd_lb D) (cd_n D) ;; ubd ub_ <- opt_vec_map (cd_ub D) (cd_n D) ;;
  Some (mkXSetup P c A b G h lb ub_).

Definition sparse_setup_args (D : c_data smat) : option (xsetup smat) :=
  ubd P <- must (cd_P D) ;;
  ubd ca <- must (cd_c D) ;; ubd c <- view_vec (cd_n D) ca ;;
  ubd A <- opt_csc_map (cd_A D) ;; ubd b <- opt_vec_map (cd_b D) (cd_p D) ;;
  ubd G <- opt_csc_map (cd_G D) ;; ubd h <- opt_vec_map (cd_h D) (cd_m D) ;;
  ubd lb <- opt_vec_map (cd_lb D) (cd_n D) ;; ubd ub_ <- opt_vec_map (cd_ub D) (cd_n D) ;;
  Some (mkXSetup P c A b G h lb ub_).

Definition dense_update_args (n p m : nat) (P c A b G h lb ub_ : cptr (list V)) : option (xupdate dmat) :=
  ubd P' <- opt_mat_map P n n ;; ubd c' <- opt_vec_map c n ;;
  ubd A' <- opt_mat_map A p n ;; ubd b' <- opt_vec_map b p ;;
  ubd G' <- opt_mat_map G m n ;; ubd h' <- opt_vec_map h m ;;
  ubd lb' <- opt_vec_map lb n ;; ubd ub' <- opt_vec_map ub_ n ;;
  Some (mkXUpdate P' c' A' b' G' h' lb' ub').

Definition sparse_update_args (n p m : nat) (P : cptr smat) (c : cptr (list V)) (A : cptr smat) (b : cptr (list V))
    (G : cptr smat) (h lb ub_ : cptr (list V)) : option (xupdate smat) :=
  ubd P' <- opt_csc_map P ;; ubd c' <- opt_vec_map c n ;;
  ubd A' <- opt_csc_map A ;; ubd b' <- opt_vec_map b p ;;
  ubd G' <- opt_csc_map G ;; ubd h' <- opt_vec_map h m ;;
  ubd lb' <- opt_vec_map lb n ;; ubd ub' <- opt_vec_map ub_ n ;;
  Some (mkXUpdate P' c' A' b' G' h' lb' ub').

(** piqp_update_settings: the assignment list of the branch selected by is_dense, run in source order:
    solver->settings().<w_core> = <conv> settings-><w_ext> *)
Definition settings_wires (s : xsolver) : list wire :=
  match s with XD _ => c_settings_in_dense T | XS _ => c_settings_in_sparse T end.
Definition set_all (ws : list wire) (cs : env) (e : env) : env :=
  assign ws (@w_core) (fun w => cast (w_conv w) (cs (w_ext w))) e.
Definition c_update_settings (cs : env) (s : xsolver) : xsolver :=
  match s with
  | XD st => XD (set_all (c_settings_in_dense T) cs (fst st), snd st)
  | XS st => XS (set_all (c_settings_in_sparse T) cs (fst st), snd st)
  end.

(** piqp_set_default_settings: settings-><w_ext> = <conv> default_settings.<w_core>, onto whatever the struct held *)
Definition c_set_default_settings (before : env) : env :=
  assign (c_settings_out T) (@w_ext) (fun w => cast (w_conv w) (x_default (w_core w))) before.

(** piqp_update_result: result-><w_ext> = solver_result.<w_core>.data();  result->info.<w_ext> = <conv> solver_result.info.<w_core> *)
Definition c_update_result (r : xresult) (w : cwork) : cwork :=
  mkCWork (w_solver w) (w_n w) (w_p w) (w_m w)
          (assign (c_result_out T) (@w_ext) (fun x => Some (w_core x)) (w_ptr w))
          (assign (c_info_out T) (@w_ext) (fun x => Some (cast (w_conv x) (xr_info r (w_core x)))) (w_info w))
          (w_ret w).

Definition fresh_work (s : xsolver) (n p m : nat) : cwork :=       (* new piqp_workspace; new piqp_result (uninitialised) *)
  mkCWork s n p m (fun _ => None) (fun _ => None) None.

Definition with_solver (w : cwork) (s : xsolver) : cwork :=
  mkCWork s (w_n w) (w_p w) (w_m w) (w_ptr w) (w_info w) (w_ret w).

Definition maybe_settings (so : cptr env) (s : xsolver) : xsolver :=
  match so with PNull => s | PTo cs => c_update_settings cs s end.

(** one C call.  The state is [None] before the first setup; a later setup makes a new workspace. *)
Definition c_step (st : option cwork) (c : ccall) : option (option cwork) :=
  match c, st with
  | CSetupDense D so, _ =>
      ubd a <- dense_setup_args D ;;
      match maybe_settings so (XD (x_default, d_new)) with
      | XD s1 => let s2 := XD (d_setup s1 a) in
                 Some (Some (c_update_result (x_result s2) (fresh_work s2 (cd_n D) (cd_p D) (cd_m D))))
      | XS _ => None
      end
  | CSetupSparse D so, _ =>
      ubd a <- sparse_setup_args D ;;
      match maybe_settings so (XS (x_default, s_new)) with
      | XS s1 => let s2 := XS (s_setup s1 a) in
                 Some (Some (c_update_result (x_result s2) (fresh_work s2 (cd_n D) (cd_p D) (cd_m D))))
      | XD _ => None
      end
  | CUpdateSettings cs, Some w => Some (Some (with_solver w (c_update_settings cs (w_solver w))))
  | CUpdateDense P c A b G h lb ub_, Some w =>
      match w_solver w with
      | XD s => ubd a <- dense_update_args (w_n w) (w_p w) (w_m w) P c A b G h lb ub_ ;;
                Some (Some (with_solver w (XD (d_update s a))))        (* no piqp_update_result here *)
      | XS _ => None                                                    (* reinterpret_cast to the wrong class *)
      end
  | CUpdateSparse P c A b G h lb ub_, Some w =>
      match w_solver w with
      | XS s => ubd a <- sparse_update_args (w_n w) (w_p w) (w_m w) P c A b G h lb ub_ ;;
                Some (Some (with_solver w (XS (s_update s a))))
      | XD _ => None
      end
  | CSolve, Some w =>
      let '(s', v) := match w_solver w with
                      | XD s => let '(s', v) := d_solve s in (XD s', v)
                      | XS s => let '(s', v) := s_solve s in (XS s', v)
                      end in
      let w' := c_update_result (x_result s') (with_solver w s') in
      Some (Some (mkCWork (w_solver w') (w_n w') (w_p w') (w_m w') (w_ptr w') (w_info w') (Some v)))
  | _, None => None                                                     (* NULL workspace *)
  end.

Fixpoint c_run (st : option cwork) (cs : list ccall) : option (option cwork) :=
  match cs with [] => Some st | c :: t => ubd st' <- c_step st c ;; c_run st' t end.

(** ** translation of a C call sequence into the C++ calls it stands for.
    The only C-level state it needs is solver_info (class, n, p, m), which is a function of the C calls alone. *)
Definition sinfo := option (bool * nat * nat * nat)%type.     (* is_dense, n, p, m *)

Definition sets_of (ws : list wire) (cs : env) : list xcall :=
  map (fun w => XSet (w_core w) (cast (w_conv w) (cs (w_ext w)))) ws.

Definition tr_settings (dense : bool) (cs : env) : list xcall :=
  sets_of (if dense then c_settings_in_dense T else c_settings_in_sparse T) cs.

Definition tr_step (si : sinfo) (c : ccall) : option (list xcall * sinfo) :=
  match c, si with
  | CSetupDense D so, _ =>
      ubd a <- dense_setup_args D ;;
      Some (XNewDense :: match so with PNull => [] | PTo cs => tr_settings true cs end ++ [XSetupD a; XResult],
            Some (true, cd_n D, cd_p D, cd_m D))
  | CSetupSparse D so, _ =>
      ubd a <- sparse_setup_args D ;;
      Some (XNewSparse :: match so with PNull => [] | PTo cs => tr_settings false cs end ++ [XSetupS a; XResult],
            Some (false, cd_n D, cd_p D, cd_m D))
  | CUpdateSettings cs, Some (dense, _, _, _) => Some (tr_settings dense cs, si)
  | CUpdateDense P c A b G h lb ub_, Some (true, n, p, m) =>
      ubd a <- dense_update_args n p m P c A b G h lb ub_ ;; Some ([XUpdateD a], si)
  | CUpdateSparse P c A b G h lb ub_, Some (false, n, p, m) =>
      ubd a <- sparse_update_args n p m P c A b G h lb ub_ ;; Some ([XUpdateS a], si)
  | CSolve, Some _ => Some ([XSolve; XResult], si)
  | _, _ => None
  end.

Fixpoint translate (si : sinfo) (cs : list ccall) : option (list xcall) :=
  match cs with
  | [] => Some []
  | c :: t => ubd r <- tr_step si c ;; ubd rest <- translate (snd r) t ;; Some ((fst r ++ rest)%list)
  end.

(** ** the projection, stated field by field and independently of the order of the assignment lists *)
Definition in_names (f : string) (l : list string) : bool := existsb (String.eqb f) l.

Definition result_vec_names : list string :=
  map (@cf_name) (filter (fun c => negb (String.eqb (cf_type c) "Info<T>")) (core_result T)).
Definition info_names : list string := map (@cf_name) (core_info T).
Definition settings_names : list string := map (@cf_name) (core_settings T).

(** the C pointer f points to the C++ vector f, for exactly the vector fields of piqp::Result *)
Definition proj_ptr (f : string) : option string := if in_names f result_vec_names then Some f else None.
(** the C info field f holds the (cast of the) C++ Info field f, for exactly the fields of piqp::Info *)
Definition proj_info (r : xresult) (f : string) : option SV :=
  if in_names f info_names then Some (cast (conv_of (c_info_out T) f) (xr_info r f)) else None.

(** what a C caller observes: the vectors read through the result pointers NOW, the info copy, the last status *)
Definition c_read_vec (w : cwork) (f : string) : option (list V) :=
  option_map (xr_vec (x_result (w_solver w))) (w_ptr w f).

(** a C workspace is the projection of a C++ run *)
Definition Projects (xr : xrun) (w : cwork) : Prop :=
  xst xr = Some (w_solver w) /\
  (forall f, w_ptr w f = proj_ptr f) /\
  (exists r, xsnap xr = Some r /\ forall f, w_info w f = proj_info r f) /\
  w_ret w = xret xr.

Definition sinfo_of (w : option cwork) : sinfo :=
  match w with
  | None => None
  | Some w => Some (match w_solver w with XD _ => true | XS _ => false end, w_n w, w_p w, w_m w)
  end.

Definition refreshing (c : ccall) : bool :=
  match c with CSetupDense _ _ | CSetupSparse _ _ | CSolve => true | _ => false end.
End CAPI.

(* ------------------------------------------------------------------------------------------------ *)
(** * the abstract C++ solver as one record, and the C API over it (used by the property statements) *)
Record cxx_solver (V SV : Type) : Type := mkCxx {
  cx_DK : Type;                              (* state of a DenseSolver<T> object apart from m_settings *)
  cx_SK : Type;                              (* state of a SparseSolver<T, I> object apart from m_settings *)
  cx_default : env SV;                       (* piqp::Settings<T>{} *)
  cx_dnew : cx_DK;
  cx_snew : cx_SK;
  cx_dsetup : env SV * cx_DK -> xsetup V (dmat V) -> env SV * cx_DK;
  cx_ssetup : env SV * cx_SK -> xsetup V (smat V) -> env SV * cx_SK;
  cx_dupdate : env SV * cx_DK -> xupdate V (dmat V) -> env SV * cx_DK;
  cx_supdate : env SV * cx_SK -> xupdate V (smat V) -> env SV * cx_SK;
  cx_dsolve : env SV * cx_DK -> (env SV * cx_DK) * SV;
  cx_ssolve : env SV * cx_SK -> (env SV * cx_SK) * SV;
  cx_dresult : cx_DK -> xresult V SV;
  cx_sresult : cx_SK -> xresult V SV }.

Section Bundled.
Variable V : Type.
Variable d : V.
Variable SV : Type.
Variable cast : string -> SV -> SV.
Variable T : Tables.
Variable S : cxx_solver V SV.

Definition Cwork := cwork SV (cx_DK S) (cx_SK S).
Definition Xrun := xrun V SV (cx_DK S) (cx_SK S).

Definition C_run : option Cwork -> list (ccall V SV) -> option (option Cwork) :=
  c_run d cast T (cx_default S) (cx_dnew S) (cx_snew S) (@cx_dsetup _ _ S) (@cx_ssetup _ _ S) (@cx_dupdate _ _ S) (@cx_supdate _ _ S)
        (@cx_dsolve _ _ S) (@cx_ssolve _ _ S) (@cx_dresult _ _ S) (@cx_sresult _ _ S).
Definition X_run : Xrun -> list (xcall V SV) -> option Xrun :=
  x_run (cx_default S) (cx_dnew S) (cx_snew S) (@cx_dsetup _ _ S) (@cx_ssetup _ _ S) (@cx_dupdate _ _ S) (@cx_supdate _ _ S)
        (@cx_dsolve _ _ S) (@cx_ssolve _ _ S) (@cx_dresult _ _ S) (@cx_sresult _ _ S).
Definition X_result : xsolver SV (cx_DK S) (cx_SK S) -> xresult V SV := x_result (@cx_dresult _ _ S) (@cx_sresult _ _ S).
Definition C_read_vec : Cwork -> string -> option (list V) := c_read_vec (@cx_dresult _ _ S) (@cx_sresult _ _ S).
Definition X_run0 : Xrun := xrun0 V SV (cx_DK S) (cx_SK S).

(** update() writes only timing fields of Info (true of solver.hpp today; checked bit for bit by the harness after every update) *)
Definition update_frame : Prop :=
  (forall st a f, ~ In f timing_fields ->
     xr_info (cx_dresult S (snd (cx_dupdate S st a))) f = xr_info (cx_dresult S (snd st)) f) /\
  (forall st a f, ~ In f timing_fields ->
     xr_info (cx_sresult S (snd (cx_supdate S st a))) f = xr_info (cx_sresult S (snd st)) f).
End Bundled.

Arguments C_run [V] d [SV] cast T S _ _.
Arguments X_run [V SV] S _ _.
Arguments C_read_vec [V SV] S _ _.

(** the five facts about the regenerated tables that the C16 table part (Properties_C16T.v) proves for gen_tables *)
Definition tables_wired (T : Tables) : Prop :=
  WiredDiag (vec_fields (core_result T)) (c_result_out T) /\
  WiredDiag (names (core_info T)) (c_info_out T) /\
  WiredDiag (names (core_settings T)) (c_settings_out T) /\
  WiredDiag (names (core_settings T)) (c_settings_in_dense T) /\
  WiredDiag (names (core_settings T)) (c_settings_in_sparse T).

(** a toy instance of the abstract solver, used for the non-vacuity examples of Properties_C16.v: the state counts the
    calls, update touches only the counter that feeds the timing fields *)
Definition toy_solver : cxx_solver nat nat :=
  let res := fun k : nat * nat => mkXResult (fun _ => [fst k; snd k]) (fun f => if in_names f timing_fields then snd k else fst k) in
  @mkCxx nat nat (nat * nat) (nat * nat) (fun _ => 7) (0, 0) (0, 0)
    (fun st a => (fst st, (1 + length (xs_P a) + fst st "max_iter"%string, 0)))
    (fun st a => (fst st, (1 + csc_nnz (xs_P a), 0)))
    (fun st a => (fst st, (fst (snd st), 1 + snd (snd st))))
    (fun st a => (fst st, (fst (snd st), 1 + snd (snd st))))
    (fun st => ((fst st, (10 + fst (snd st), snd (snd st))), 1))
    (fun st => ((fst st, (10 + fst (snd st), snd (snd st))), 1))
    res res.
