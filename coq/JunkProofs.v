(* JunkProofs.v -- C07 "results are a function of the inputs only":
   the observable behaviour of the solver object (API.v) does not depend on [junk], the content of the memory
   the C++ code allocates but never writes (tails of the packed box arrays of dense::KKT beyond n_lb / n_ub,
   tails of the result vectors beyond n_lb / n_ub before restore_box_dual).

   Files
     JunkProofs.v         A  lists, the relational lifting RR of the error monad
                          B  dense::KKT : every operation reads the four box arrays only on head(n_lb) / head(n_ub)
                          C  IPM.v      : states whose KKT objects agree produce equal iterates / info and agreeing
                                          KKT objects (init_factor, initial_point, loop_pass, main_loop)
     JunkShapeProofs.v    D  the lengths of the iterate are an invariant of solve (no positivity needed)
     JunkAPIProofs.v      E  API.v : setup / update / solve, unscale_and_restore
     JunkWFProofs.v          the shape invariant of the solver object: established by setup, kept by update and solve
     JunkFrameProofs.v       solve() keeps every property of the KKT object that update_scalings / factorize keep
     JunkDeltaProofs.v       update() on a grown bound pattern: the division on never-written slots
     JunkHistoryProofs.v  F  histories: junk_independence      G  no_shared_state (interleavings)
     JunkDeltaPosProofs.v    the trace condition of F holds under the hypotheses of the interior-point theorems
     JunkExamples.v       H  concrete witnesses (refutations and non-vacuity) *)
From PIQP Require Import Base Data Bounds PrecondDense KKTDense IPM API.
From Coq Require Import Lia.
From RecordUpdate Require Import RecordSet.
Import RecordSetNotations.
Local Open Scope Qc_scope.

(* ================================================================================================ *)
(** * A. Preliminaries *)

(* two runs are related: both succeed with related values, or both fail with the same error *)
Definition RR {A B} (R : A -> B -> Prop) (r1 : res A) (r2 : res B) : Prop :=
  match r1, r2 with
  | Ok a, Ok b => R a b
  | Err e1, Err e2 => e1 = e2
  | _, _ => False
  end.

Lemma RR_eq_iff {A} (r1 r2 : res A) : RR eq r1 r2 <-> r1 = r2.
Proof.
  destruct r1, r2; cbn; split; intros H; try congruence; try contradiction; try discriminate.
Qed.

Lemma RR_refl {A} (R : A -> A -> Prop) (r : res A) : (forall a, R a a) -> RR R r r.
Proof. intros H. destruct r; cbn; auto. Qed.

Lemma RR_bind {A1 A2 B C} (Q : A1 -> A2 -> Prop) (R : B -> C -> Prop) e1 e2 f1 f2 :
  RR Q e1 e2 -> (forall a1 a2, Q a1 a2 -> RR R (f1 a1) (f2 a2)) -> RR R (bind e1 f1) (bind e2 f2).
Proof. destruct e1, e2; cbn; intros H1 H2; auto; contradiction. Qed.

Lemma RR_bind_same {A B C} (R : B -> C -> Prop) (e : res A) f1 f2 :
  (forall a, RR R (f1 a) (f2 a)) -> RR R (bind e f1) (bind e f2).
Proof. destruct e; cbn; auto. Qed.

Lemma RR_let_same {A B C} (R : B -> C -> Prop) (v : A) (b1 : A -> res B) (b2 : A -> res C) :
  (forall y, RR R (b1 y) (b2 y)) -> RR R (let x := v in b1 x) (let x := v in b2 x).
Proof. intros H; exact (H v). Qed.

Lemma RR_weaken {A B} (R R' : A -> B -> Prop) r1 r2 :
  (forall a b, R a b -> R' a b) -> RR R r1 r2 -> RR R' r1 r2.
Proof. destruct r1, r2; cbn; auto. Qed.

(* one step of the synchronous traversal of two copies of the same monadic program: the parts of the two
   programs that do not mention the KKT object are convertible and are abstracted simultaneously *)
Ltac rr_step :=
  cbv beta;
  lazymatch goal with
  | |- RR _ (Err ?e) (Err ?e) => reflexivity
  | |- RR ?R (let x := ?v1 in @?b1 x) (let x' := ?v2 in @?b2 x') =>
      first [ let y := fresh x in refine (RR_let_same R v1 b1 b2 _); intros y; cbv beta
            | change (RR R (b1 v1) (b2 v2)); cbv beta ]
  | |- RR ?R (bind ?e1 ?f1) (bind ?e2 ?f2) =>
      let a := fresh "a" in refine (RR_bind_same R e1 f1 f2 _); intros a; cbv beta
  | |- RR ?R (if ?c1 then ?a1 else ?b1) (if ?c2 then ?a2 else ?b2) =>
      change (RR R (if c1 then a1 else b1) (if c1 then a2 else b2)); destruct c1
  | |- RR ?R (match ?p with pair _ _ => _ end) (match ?p with pair _ _ => _ end) => destruct p
  end.

(* ---- lists ---- *)
Lemma combine_firstn_r {A B} (a : list A) (b : list B) n :
  (length a <= n)%nat -> combine a (firstn n b) = combine a b.
Proof.
  revert b n. induction a as [|x a IH]; intros b n H; [reflexivity|].
  destruct n as [|n]; [cbn in H; lia|]. destruct b as [|y b]; [reflexivity|].
  cbn. f_equal. apply IH. cbn in H. lia.
Qed.

Lemma combine_length_le_l {A B} (a : list A) (b : list B) : (length (combine a b) <= length a)%nat.
Proof. rewrite combine_length. lia. Qed.

Lemma firstn_set_head {A} (w v : list A) n :
  (length w <= n)%nat -> firstn n (set_head w v) = w ++ skipn (length w) (firstn n v).
Proof.
  intros H. unfold set_head. rewrite firstn_app.
  rewrite firstn_all2 by exact H. f_equal.
  rewrite firstn_skipn_comm. f_equal. f_equal. lia.
Qed.

Lemma firstn_set_head_full {A} (w v : list A) n :
  (n <= length w)%nat -> firstn n (set_head w v) = firstn n w.
Proof.
  intros H. unfold set_head. rewrite firstn_app.
  replace (n - length w)%nat with 0%nat by lia. cbn. apply app_nil_r.
Qed.

Lemma set_head_length' {A} (w v : list A) : length (set_head w v) = Nat.max (length w) (length v).
Proof. unfold set_head. rewrite app_length, skipn_length. lia. Qed.

Lemma mapM_len {A B} (f : A -> res B) l r : mapM f l = Ok r -> length r = length l.
Proof.
  revert r. induction l as [|a l IH]; intros r E; cbn [mapM] in E.
  - injection E as <-. reflexivity.
  - destruct (f a); cbn [bind] in E; [|discriminate]. destruct (mapM f l) as [r'|]; cbn [bind] in E; [|discriminate].
    injection E as <-. cbn. f_equal. apply IH. reflexivity.
Qed.

(* agreement of two copies of a packed box array whose first [n] slots are meaningful *)
Definition box_agree {A} (n : nat) (a b : list A) : Prop := length a = length b /\ firstn n a = firstn n b.

Lemma box_agree_refl {A} n (a : list A) : box_agree n a a.
Proof. split; reflexivity. Qed.

Lemma box_agree_set_head {A} n (w v1 v2 : list A) :
  box_agree n v1 v2 -> (length w <= n)%nat -> box_agree n (set_head w v1) (set_head w v2).
Proof.
  intros [L E] H. split.
  - rewrite !set_head_length'. lia.
  - rewrite !firstn_set_head by exact H. rewrite E. reflexivity.
Qed.

Lemma box_agree_set_head_full {A} n (w v1 v2 : list A) :
  length v1 = length v2 -> (n <= length w)%nat -> box_agree n (set_head w v1) (set_head w v2).
Proof.
  intros L H. split.
  - rewrite !set_head_length'. lia.
  - rewrite !firstn_set_head_full by exact H. reflexivity.
Qed.

(* ================================================================================================ *)
(** * B. dense::KKT *)

(* everything except the matrix and the tails of the box arrays *)
Definition kkt_pre (d : Data) (k1 k2 : KKT) : Prop :=
  k_rho k1 = k_rho k2 /\ k_delta k1 = k_delta k2 /\ k_s k1 = k_s k2 /\ k_z_inv k1 = k_z_inv k2 /\
  k_ATA k1 = k_ATA k2 /\ k_fact k1 = k_fact k2 /\
  box_agree (d_nlb d) (k_s_lb k1) (k_s_lb k2) /\ box_agree (d_nlb d) (k_z_lb_inv k1) (k_z_lb_inv k2) /\
  box_agree (d_nub d) (k_s_ub k1) (k_s_ub k2) /\ box_agree (d_nub d) (k_z_ub_inv k1) (k_z_ub_inv k2).

(* the observable part of the KKT object: all fields, the box arrays up to n_lb / n_ub (and their lengths) *)
Definition kkt_agree (d : Data) (k1 k2 : KKT) : Prop := kkt_pre d k1 k2 /\ k_mat k1 = k_mat k2.

(* the relation that holds between an update() and the next solve(): nothing is known about the contents of the box
   arrays and of the matrix (update_kkt may have read never-written slots); the next solve() overwrites head(n_lb),
   head(n_ub) and rebuilds the matrix before any of them is read *)
Definition kkt_pend (k1 k2 : KKT) : Prop :=
  k_rho k1 = k_rho k2 /\ k_delta k1 = k_delta k2 /\ k_s k1 = k_s k2 /\ k_z_inv k1 = k_z_inv k2 /\
  k_ATA k1 = k_ATA k2 /\ k_fact k1 = k_fact k2 /\
  length (k_s_lb k1) = length (k_s_lb k2) /\ length (k_z_lb_inv k1) = length (k_z_lb_inv k2) /\
  length (k_s_ub k1) = length (k_s_ub k2) /\ length (k_z_ub_inv k1) = length (k_z_ub_inv k2).

Lemma kkt_agree_refl d k : kkt_agree d k k.
Proof. repeat split. Qed.

Lemma kkt_pre_pend d k1 k2 : kkt_pre d k1 k2 -> kkt_pend k1 k2.
Proof.
  intros (H1 & H2 & H3 & H4 & H5 & H6 & [L1 _] & [L2 _] & [L3 _] & [L4 _]). repeat split; assumption.
Qed.
Lemma kkt_agree_pend d k1 k2 : kkt_agree d k1 k2 -> kkt_pend k1 k2.
Proof. intros [H _]. eapply kkt_pre_pend; eauto. Qed.

(* box_diag reads zinv and s only where sc has entries *)
Lemma box_diag_agree delta diag idx (sc zi1 zi2 s1 s2 : Vec) n :
  (length sc <= n)%nat -> firstn n zi1 = firstn n zi2 -> firstn n s1 = firstn n s2 ->
  box_diag delta diag idx sc zi1 s1 = box_diag delta diag idx sc zi2 s2.
Proof.
  intros H Ez Es. unfold box_diag.
  rewrite <- (combine_firstn_r sc zi1 n H), <- (combine_firstn_r sc zi2 n H), Ez.
  assert (H' : (length (combine sc (firstn n zi2)) <= n)%nat)
    by (pose proof (combine_length_le_l sc (firstn n zi2)); lia).
  rewrite <- (combine_firstn_r _ s1 n H'), <- (combine_firstn_r _ s2 n H'), Es.
  reflexivity.
Qed.

Lemma head_length_le {A} n (v : list A) : (length (head n v) <= n)%nat.
Proof. unfold head. apply firstn_le_length. Qed.

(* update_kkt rebuilds the matrix from the observable part *)
Lemma update_kkt_agree d k1 k2 : kkt_pre d k1 k2 -> RR (kkt_agree d) (update_kkt d k1) (update_kkt d k2).
Proof.
  intros (H1 & H2 & H3 & H4 & H5 & H6 & [L1 E1] & [L2 E2] & [L3 E3] & [L4 E4]).
  unfold update_kkt. rewrite <- H1, <- H2, <- H3, <- H4, <- H5.
  rewrite (box_diag_agree _ _ _ _ _ _ _ _ _ (head_length_le _ _) E2 E1).
  repeat rr_step.
  rewrite (box_diag_agree _ _ _ _ _ _ _ _ _ (head_length_le _ _) E4 E3).
  repeat rr_step.
  cbn. repeat split; assumption.
Qed.

Lemma update_kkt_keeps d k k' : update_kkt d k = Ok k' -> exists rows, k' = k <| k_mat := rows |>.
Proof.
  unfold update_kkt. intros H.
  repeat match type of H with bind ?e _ = _ => destruct e; cbn [bind] in H; [|discriminate H] end.
  injection H as <-. eexists; reflexivity.
Qed.

Lemma kkt_init_agree d rho delta j1 j2 :
  RR (kkt_agree d) (kkt_init d rho delta j1) (kkt_init d rho delta j2).
Proof.
  unfold kkt_init. apply update_kkt_agree. unfold kkt_pre, box_agree, vconst. cbn.
  rewrite !app_length, !repeat_length.
  repeat split; try reflexivity.
  all: rewrite !firstn_app, !repeat_length, Nat.sub_diag; cbn; rewrite !app_nil_r;
       rewrite !firstn_all2 by (rewrite repeat_length; lia); reflexivity.
Qed.

Lemma kkt_update_scalings_agree d k1 k2 rho delta s s_lb s_ub z z_lb z_ub :
  kkt_pre d k1 k2 ->
  RR (kkt_agree d) (kkt_update_scalings d k1 rho delta s s_lb s_ub z z_lb z_ub)
                   (kkt_update_scalings d k2 rho delta s s_lb s_ub z z_lb z_ub).
Proof.
  intros (H1 & H2 & H3 & H4 & H5 & H6 & B1 & B2 & B3 & B4).
  unfold kkt_update_scalings.
  destruct (vinv z) as [zi|] eqn:Ez; cbn [bind]; [|reflexivity].
  destruct (vinv (head (d_nlb d) z_lb)) as [zlbi|] eqn:Ezlb; cbn [bind]; [|reflexivity].
  destruct (vinv (head (d_nub d) z_ub)) as [zubi|] eqn:Ezub; cbn [bind]; [|reflexivity].
  apply update_kkt_agree.
  assert (Llb : (length zlbi <= d_nlb d)%nat)
    by (rewrite (mapM_len _ _ _ Ezlb); apply head_length_le).
  assert (Lub : (length zubi <= d_nub d)%nat)
    by (rewrite (mapM_len _ _ _ Ezub); apply head_length_le).
  unfold kkt_pre. cbn.
  do 6 (split; [assumption || reflexivity|]).
  split; [|split; [|split]]; apply box_agree_set_head; try assumption; apply head_length_le.
Qed.

(* the first scaling update of a solve() that follows an update(): the packed vectors of the entry iterate have
   exactly the lengths n_lb / n_ub, so head(n_lb) / head(n_ub) are overwritten completely *)
Lemma kkt_update_scalings_pend d k1 k2 rho delta s s_lb s_ub z z_lb z_ub :
  kkt_pend k1 k2 ->
  (d_nlb d <= length s_lb)%nat -> (d_nlb d <= length z_lb)%nat ->
  (d_nub d <= length s_ub)%nat -> (d_nub d <= length z_ub)%nat ->
  RR (kkt_agree d) (kkt_update_scalings d k1 rho delta s s_lb s_ub z z_lb z_ub)
                   (kkt_update_scalings d k2 rho delta s s_lb s_ub z z_lb z_ub).
Proof.
  intros (H1 & H2 & H3 & H4 & H5 & H6 & B1 & B2 & B3 & B4) L1 L2 L3 L4.
  unfold kkt_update_scalings.
  destruct (vinv z) as [zi|] eqn:Ez; cbn [bind]; [|reflexivity].
  destruct (vinv (head (d_nlb d) z_lb)) as [zlbi|] eqn:Ezlb; cbn [bind]; [|reflexivity].
  destruct (vinv (head (d_nub d) z_ub)) as [zubi|] eqn:Ezub; cbn [bind]; [|reflexivity].
  apply update_kkt_agree.
  assert (Llb : length zlbi = d_nlb d)
    by (rewrite (mapM_len _ _ _ Ezlb); unfold head; apply firstn_length_le; exact L2).
  assert (Lub : length zubi = d_nub d)
    by (rewrite (mapM_len _ _ _ Ezub); unfold head; apply firstn_length_le; exact L4).
  unfold kkt_pre. cbn.
  do 6 (split; [assumption || reflexivity|]).
  split; [|split; [|split]]; apply box_agree_set_head_full; try assumption; try lia.
  all: unfold head; rewrite firstn_length_le; auto.
Qed.

Lemma kkt_update_data_agree d k1 k2 oP oA oG :
  kkt_pre d k1 k2 ->
  RR (fun a b => if oP || oA || oG then kkt_agree d a b else kkt_pre d a b /\ (k_mat k1 = k_mat k2 -> k_mat a = k_mat b))
     (kkt_update_data d k1 oP oA oG) (kkt_update_data d k2 oP oA oG).
Proof.
  intros H. unfold kkt_update_data. generalize (oA && Nat.ltb 0 (d_p d))%bool as c. intros c.
  assert (H' : kkt_pre d (if c then k1 <| k_ATA := compute_ATA d |> else k1)
                         (if c then k2 <| k_ATA := compute_ATA d |> else k2)).
  { destruct c; [|exact H].
    destruct H as (H1 & H2 & H3 & H4 & H5 & H6 & B1 & B2 & B3 & B4). unfold kkt_pre. cbn. repeat split; try assumption; apply B1 || apply B2 || apply B3 || apply B4. }
  destruct (oP || oA || oG).
  - apply update_kkt_agree. exact H'.
  - cbn. split; [exact H'|]. destruct c; cbn; auto.
Qed.

Section KSolve.
Variable S : Settings.

Lemma regularize_and_factorize_agree d k1 k2 refine flt :
  kkt_agree d k1 k2 ->
  RR (fun a b => kkt_agree d (fst a) (fst b) /\ snd a = snd b)
     (regularize_and_factorize S d k1 refine flt) (regularize_and_factorize S d k2 refine flt).
Proof.
  intros [(H1 & H2 & H3 & H4 & H5 & H6 & [L1 E1] & [L2 E2] & [L3 E3] & [L4 E4]) HM].
  unfold regularize_and_factorize. destruct flt.
  { cbn. split; [|reflexivity]. repeat split; assumption. }
  unfold head. rewrite <- H1, <- H3, <- H4, <- HM, <- E1, <- E2, <- E3, <- E4.
  repeat rr_step.
  all: cbn; (split; [|reflexivity]); repeat split; assumption.
Qed.

Lemma refine_loop_ext k1 k2 : k_fact k1 = k_fact k2 -> k_mat k1 = k_mat k2 ->
  forall fuel rhs rn sol ec en, refine_loop S fuel k1 rhs rn sol ec en = refine_loop S fuel k2 rhs rn sol ec en.
Proof.
  intros HF HM. induction fuel as [|f IH]; intros; cbn [refine_loop]; [reflexivity|].
  unfold solve_ldlt. rewrite <- HF, <- HM.
  destruct (qleb _ _); [reflexivity|].
  destruct (match k_fact k1 with Some f0 => llt_solve f0 ec | None => Err Shape end); cbn [bind]; [|reflexivity].
  destruct (qeqb _ 0); [apply IH|].
  destruct (qdiv _ _); cbn [bind]; [|reflexivity].
  destruct (qltb _ _); [reflexivity|apply IH].
Qed.

Lemma kkt_solve_agree d k1 k2 refine rx ry rz rzlb rzub rs rslb rsub :
  kkt_agree d k1 k2 ->
  kkt_solve S d k1 refine rx ry rz rzlb rzub rs rslb rsub = kkt_solve S d k2 refine rx ry rz rzlb rzub rs rslb rsub.
Proof.
  intros [(H1 & H2 & H3 & H4 & H5 & H6 & [L1 E1] & [L2 E2] & [L3 E3] & [L4 E4]) HM].
  apply RR_eq_iff.
  destruct k1 as [rho1 delta1 s1 slb1 sub1 zi1 zlb1 zub1 mat1 ata1 fact1].
  destruct k2 as [rho2 delta2 s2 slb2 sub2 zi2 zlb2 zub2 mat2 ata2 fact2].
  cbn in *. subst rho2 delta2 s2 zi2 mat2 ata2 fact2.
  unfold kkt_solve. cbn [k_s_lb k_s_ub k_z_lb_inv k_z_ub_inv k_delta k_s k_z_inv]. unfold head. rewrite <- E1, <- E2, <- E3, <- E4.
  repeat rr_step.
  eapply RR_bind with (Q := eq).
  - apply RR_eq_iff. destruct (refine && _)%bool; [|reflexivity]. cbv zeta.
    apply refine_loop_ext; reflexivity.
  - intros sol ? <-. repeat rr_step. cbn. reflexivity.
Qed.

Lemma kkt_multiply_agree d k1 k2 v :
  kkt_agree d k1 k2 -> kkt_multiply d k1 v = kkt_multiply d k2 v.
Proof.
  intros [(H1 & H2 & H3 & H4 & H5 & H6 & [L1 E1] & [L2 E2] & [L3 E3] & [L4 E4]) HM].
  unfold kkt_multiply, head. rewrite <- H1, <- H2, <- H3, <- H4, <- E1, <- E2, <- E3, <- E4. reflexivity.
Qed.

End KSolve.

(* ================================================================================================ *)
(** * C. The interior-point iteration *)

Definition st_agree (d : Data) (a b : St) : Prop :=
  st_it a = st_it b /\ st_inf a = st_inf b /\ st_refine a = st_refine b /\ st_res a = st_res b /\
  st_calls a = st_calls b /\ kkt_agree d (st_kkt a) (st_kkt b).

Definition out_agree (d : Data) (a b : Outcome) : Prop :=
  match a, b with
  | Continue x, Continue y => st_agree d x y
  | Stop x, Stop y => st_agree d x y
  | _, _ => False
  end.

Lemma st_agree_refl d st : st_agree d st st.
Proof. repeat split. Qed.

(* bring two agreeing states into the form  mkSt it inf k1 rf rs c  /  mkSt it inf k2 rf rs c *)
Ltac split_agree H :=
  match type of H with
  | st_agree _ ?a ?b =>
      let it := fresh "it" in let inf := fresh "inf" in let k := fresh "k" in let rf := fresh "rf" in
      let rs := fresh "rs" in let c := fresh "c" in
      let it' := fresh "it" in let inf' := fresh "inf" in let k' := fresh "k" in let rf' := fresh "rf" in
      let rs' := fresh "rs" in let c' := fresh "c" in
      let Hk := fresh "Hk" in
      destruct a as [it inf k rf rs c]; destruct b as [it' inf' k' rf' rs' c'];
      unfold st_agree in H; cbn [st_it st_inf st_kkt st_refine st_res st_calls] in H;
      destruct H as (<- & <- & <- & <- & <- & Hk)
  end.

Section Lift.
Variable K : Consts.
Variable S : Settings.
Variable d : Data.
Variable pc : Precond.
Variable fault : nat -> bool.
Variable cp : F -> F.

Lemma do_update_scalings_agree a b :
  st_agree d a b -> RR (st_agree d) (do_update_scalings d a) (do_update_scalings d b).
Proof.
  intros H. split_agree H. unfold do_update_scalings. cbn [st_it st_inf st_kkt].
  eapply RR_bind.
  - apply kkt_update_scalings_agree. apply Hk.
  - intros k1 k2 Hk'. cbn. repeat split; apply Hk'.
Qed.

Lemma do_factorize_agree a b :
  st_agree d a b ->
  RR (fun x y => st_agree d (fst x) (fst y) /\ snd x = snd y) (do_factorize S d fault a) (do_factorize S d fault b).
Proof.
  intros H. split_agree H. unfold do_factorize. cbn [st_it st_inf st_kkt st_refine st_calls].
  eapply RR_bind.
  - apply regularize_and_factorize_agree. exact Hk.
  - intros [k1 ok1] [k2 ok2] [Hk' E]. cbn in Hk', E. subst ok2. cbn. split; [|reflexivity]. repeat split; apply Hk'.
Qed.

Lemma init_factor_agree fuel : forall a b,
  st_agree d a b ->
  RR (fun x y => st_agree d (fst x) (fst y) /\ snd x = snd y)
     (init_factor K S d fault fuel a) (init_factor K S d fault fuel b).
Proof.
  induction fuel as [|f IH]; intros a b H; cbn [init_factor]; [reflexivity|].
  eapply RR_bind; [apply do_factorize_agree; exact H|].
  intros [a1 ok1] [b1 ok2] [H1 E]. cbn [fst snd] in H1, E. subst ok2.
  split_agree H1. cbn [st_refine st_inf].
  destruct ok1; [cbn; split; [|reflexivity]; repeat split; apply Hk|].
  destruct (negb rf).
  { apply IH. repeat split; apply Hk. }
  destruct (i_factor_retires inf <? max_factor_retires S)%Z.
  - eapply RR_bind.
    + apply do_update_scalings_agree. repeat split; apply Hk.
    + intros a2 b2 H2. apply IH. exact H2.
  - cbn. split; [|reflexivity]. repeat split; apply Hk.
Qed.

Lemma initial_point_agree a b :
  st_agree d a b -> RR (st_agree d) (initial_point K S d cp a) (initial_point K S d cp b).
Proof.
  intros H. split_agree H. cbv delta [initial_point]. cbv beta.
  cbn [st_kkt st_refine st_it st_inf].
  repeat rr_step.
  eapply RR_bind with (Q := eq).
  { apply RR_eq_iff. apply kkt_solve_agree. exact Hk. }
  intros stp ? <-.
  repeat rr_step.
  cbn. repeat split; apply Hk.
Qed.

Lemma loop_pass_agree a b :
  st_agree d a b -> RR (out_agree d) (loop_pass K S d pc fault cp a) (loop_pass K S d pc fault cp b).
Proof.
  intros H. split_agree H. cbv delta [loop_pass]. cbv beta.
  repeat rr_step.
  1-3: cbn; repeat split; apply Hk.
  eapply RR_bind.
  { apply do_update_scalings_agree. repeat split; apply Hk. }
  intros st4 st4' H4.
  eapply RR_bind.
  { apply do_factorize_agree. exact H4. }
  intros [st5 ok] [st5' ok'] [H5 E]. cbn [fst snd] in H5, E. subst ok'. clear H4 st4 st4'.
  split_agree H5.
  repeat rr_step.
  1-3: cbn; repeat split; apply Hk0.
  - (* predictor / corrector *)
    eapply RR_bind with (Q := eq).
    { apply RR_eq_iff. apply kkt_solve_agree. exact Hk0. }
    intros p ? <-.
    repeat rr_step.
    eapply RR_bind with (Q := eq).
    { apply RR_eq_iff. apply kkt_solve_agree. exact Hk0. }
    intros c2 ? <-.
    repeat rr_step.
    cbn. repeat split; apply Hk0.
  - eapply RR_bind with (Q := eq).
    { apply RR_eq_iff. apply kkt_solve_agree. exact Hk0. }
    intros c2 ? <-.
    repeat rr_step.
    cbn. repeat split; apply Hk0.
Qed.

Lemma main_loop_agree fuel : forall a b,
  st_agree d a b -> RR (st_agree d) (main_loop K S d pc fault cp fuel a) (main_loop K S d pc fault cp fuel b).
Proof.
  induction fuel as [|f IH]; intros a b H; cbn [main_loop]; [reflexivity|].
  pose proof H as (_ & Hinf & _). rewrite <- Hinf.
  destruct (i_iter (st_inf a) <? max_iter S)%Z.
  - eapply RR_bind; [apply loop_pass_agree; exact H|].
    intros [x|x] [y|y] Ho; cbn in Ho; try contradiction.
    + apply IH. exact Ho.
    + cbn. exact Ho.
  - cbn. split_agree H. cbn. repeat split; apply Hk.
Qed.

End Lift.
