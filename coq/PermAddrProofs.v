(* PermAddrProofs.v -- the decidable hypothesis perm_addr_okb of the permuted KKT assembly theorems (KKTSparseFullPerm.v) holds
   for EVERY square upper-triangular pattern that stores its diagonal last in every column and has no repeated row index in a
   column, and for every permutation: it is a consequence of the all-sizes specification of permute_sym (PermuteGenProofs.v)
   and of the order of its result (PermuteSortedProofs.v). *)
From PIQP Require Import Base CSC C14LemmasProofs CSCProofs TransposeProofs PermuteProofs CountSortProofs PermuteGenProofs
  PermuteSortedProofs LinAlg KKTProofs KKTSparseFull KKTSparseFullProofs KKTSparseFullPerm.
Require Import ZifyBool.
Local Open Scope nat_scope.

Lemma nodupb_of_inj l : (forall i j, i < length l -> j < length l -> nth i l 0 = nth j l 0 -> i = j) -> nodupb l = true.
Proof.
  intros H. unfold nodupb. apply forallb_forall. intros i Hi. apply in_seq in Hi.
  apply forallb_forall. intros j Hj. apply in_seq in Hj. apply negb_true_iff. apply Nat.eqb_neq.
  intros E. apply H in E; lia.
Qed.

Lemma fin_inj_surj (f : nat -> nat) N : (forall k, k < N -> f k < N) ->
  (forall k k', k < N -> k' < N -> f k = f k' -> k = k') -> forall q, q < N -> exists k, k < N /\ f k = q.
Proof.
  intros Hr Hi q Hq.
  assert (Hnd : NoDup (map f (seq 0 N))).
  { apply NoDup_map_inj_in; [|apply seq_NoDup]. intros a b Ha Hb. apply in_seq in Ha, Hb. apply Hi; lia. }
  assert (Hin : In q (map f (seq 0 N))).
  { apply (NoDup_length_incl Hnd (l' := seq 0 N)).
    - rewrite map_length; lia.
    - intros y Hy. apply in_map_iff in Hy. destruct Hy as (k & <- & Hk). apply in_seq in Hk. apply in_seq. specialize (Hr k). lia.
    - apply in_seq; lia. }
  apply in_map_iff in Hin. destruct Hin as (k & E & Hk). apply in_seq in Hk. exists k. split; auto; lia.
Qed.

(* ---------- sortedness and diagonal-last for a permutation given by ordering_init ---------- *)
Section WithOrdering.
Context {V : Type}.
Variable d : V.
Variable A : csc V.
Variable P : list nat.
Hypothesis Hwf : wf_csc A = true.
Hypothesis Hsq : ncols A = nrows A.
Hypothesis Hup : upper_only A = true.
Hypothesis HP : perm_wf P.
Hypothesis HL : length P = nrows A.

Theorem permute_sym_sorted_ord :
  exists o C a2c, ordering_init P = Ok o /\ oP o = P /\ length (oPinv o) = nrows A /\
    (forall i, i < nrows A -> nth (nth i P 0) (oPinv o) 0 = i) /\
    (forall i, i < nrows A -> nth i (oPinv o) 0 < nrows A /\ nth (nth i (oPinv o) 0) P 0 = i) /\
    permute_sym d A (oPinv o) = Ok (C, a2c) /\ permute_post d A (oPinv o) (C, a2c) /\
    cols_nondec C /\ (nodup_cols_p A -> cols_strict C) /\
    (forall j k1 k2, j < nrows A -> nth j (colptr A) 0 <= k1 -> k1 < k2 -> k2 < nth (S j) (colptr A) 0 ->
       nth k1 (rowind A) 0 = nth k2 (rowind A) 0 -> nth k1 a2c 0 < nth k2 a2c 0) /\
    ((forall j, j < nrows A -> exists k, nth j (colptr A) 0 <= k < nth (S j) (colptr A) 0 /\ nth k (rowind A) 0 = j) ->
     diag_is_last C).
Proof.
  destruct (ordering_init_correct P HP) as (o & Eo & EP & Lo & H1 & H2). rewrite HL in *.
  assert (Hpr : forall i, i < nrows A -> nth i (oPinv o) 0 < nrows A) by (intros i Hi; apply H2; auto).
  destruct (permute_sym_run d A (oPinv o) Hwf Hsq Hup Lo Hpr) as ([C a2c] & E & Hpost).
  destruct (permute_sym_order d A (oPinv o) Hwf Hsq Hup Lo Hpr) as (r & E' & Hnd & Hst & Hstab).
  rewrite E in E'. inversion E'; subst r. cbn [fst snd] in Hnd, Hst, Hstab.
  exists o, C, a2c. split; auto. split; auto. split; auto. split; auto. split; auto. split; auto. split; auto. split; auto.
  split.
  { intros Hd. apply Hst; auto. intros i j Hi Hj Eij.
    destruct (H2 i Hi) as [_ <-]. destruct (H2 j Hj) as [_ <-]. now rewrite Eij. }
  split.
  { intros j k1 k2 Hj Hk1 H12 Hk2 Erow.
    assert (HhiN : nth (S j) (colptr A) 0 <= length (rowind A)) by (apply (wf_col_range A Hwf j); lia).
    assert (CJ : forall k, nth j (colptr A) 0 <= k < nth (S j) (colptr A) 0 -> cj A k = j).
    { intros k Hk. unfold cj. apply col_of_in; auto. intros j0 Hj0. apply (wf_col_range A Hwf j0). lia. }
    apply Hstab; try lia.
    - unfold mn. rewrite !CJ by lia. now rewrite Erow.
    - unfold mx. rewrite !CJ by lia. now rewrite Erow. }
  intros Hdiag c Hc.
  destruct Hpost as (Rr & Rc & HwfC & HupC & LC & La & Hlt & Hinj & Hent). cbn [fst snd] in *.
  rewrite Rc in Hc. unfold cp.
  assert (Hj : nth c P 0 < nrows A) by (rewrite <- HL; apply perm_wf_range; auto; lia).
  destruct (Hdiag _ Hj) as (k & Hk & Ek).
  destruct (Hent _ k Hj Hk) as (Hwin & Hrow & _). cbv zeta in Hwin, Hrow.
  rewrite Ek in Hwin, Hrow. rewrite (H1 c Hc) in Hwin, Hrow. rewrite Nat.max_id in Hwin. rewrite Nat.min_id in Hrow.
  split; [lia|].
  set (ql := nth (S c) (colptr C) 0 - 1).
  destruct (Nat.eq_dec (nth k a2c 0) ql) as [<-|Hne]; auto.
  assert (H3 : nth (nth k a2c 0) (rowind C) 0 <= nth ql (rowind C) 0).
  { apply (Hnd c); unfold ql; try lia. } 
  assert (H4 : nth ql (rowind C) 0 <= c).
  { apply upper_only_le; auto. lia. unfold ql. lia. }
  lia.
Qed.
End WithOrdering.

(* ---------- the boolean check ---------- *)
Section Addr.
Context {V : Type}.
Variable K : csc V.
Variable perm : list nat.
Hypothesis Hwf : wf_csc K = true.
Hypothesis Hsq : ncols K = nrows K.
Hypothesis Hup : upper_only K = true.
Hypothesis Hdl : diag_is_last K.
Hypothesis HP : perm_wf perm.
Hypothesis HL : length perm = nrows K.

Notation N := (nrows K).
Notation Kp := (colptr K).
Notation Ki := (rowind K).
Notation nz := (length (rowind K)).

Definition Apos : csc nat := mkcsc N N Kp Ki (seq 0 nz).

Lemma Apos_wf : wf_csc Apos = true.
Proof.
  unfold wf_csc in *. cbn [Apos nrows ncols colptr rowind vals]. rewrite Hsq in Hwf. rewrite !andb_true_iff in *.
  rewrite seq_length, Nat.eqb_refl. tauto.
Qed.
Lemma Apos_up : upper_only Apos = true.
Proof. unfold upper_only in *. cbn [Apos nrows ncols colptr rowind vals]. rewrite Hsq in Hup. exact Hup. Qed.

Theorem perm_addr_ok : perm_addr_okb N Kp Ki perm = true.
Proof.
  assert (Hdiag : forall j, j < N -> exists k, nth j Kp 0 <= k < nth (S j) Kp 0 /\ nth k Ki 0 = j).
  { intros j Hj. destruct (Hdl j ltac:(lia)) as [H1 H2]. unfold cp in *. exists (nth (S j) Kp 0 - 1). split; auto. lia. }
  destruct (permute_sym_sorted_ord nz Apos perm Apos_wf eq_refl Apos_up HP HL)
    as (o & C & a2c & Eo & EP & Lo & H1 & H2 & E & Hpost & Hnondec & _ & Hstab & HdlC).
  cbn [Apos nrows ncols colptr rowind vals] in Lo, H1, H2, Hstab, HdlC. specialize (HdlC Hdiag).
  destruct Hpost as (Rr & Rc & HwfC & HupC & LC & La & Hlt & Hinj & Hent).
  cbn [Apos fst snd nrows ncols colptr rowind vals] in Rr, Rc, LC, La, Hlt, Hinj, Hent.
  unfold perm_addr_okb. cbv zeta. rewrite Eo. fold Apos. rewrite E.
  unfold perm_spec_okb. cbv zeta. rewrite !andb_true_iff.
  assert (Hpinj : forall i j, i < N -> j < N -> nth i (oPinv o) 0 = nth j (oPinv o) 0 -> i = j).
  { intros i j Hi Hj Eij. destruct (H2 i Hi) as [_ <-]. destruct (H2 j Hj) as [_ <-]. now rewrite Eij. }
  assert (LvC : length (vals C) = nz) by (rewrite (wf_vals_len C HwfC); auto).
  repeat split.
  - apply Nat.eqb_eq. auto.
  - apply forallb_forall. intros x Hx. destruct (In_nth _ _ 0 Hx) as (i & Hi & <-). apply Nat.ltb_lt. apply H2. lia.
  - apply nodupb_of_inj. intros i j Hi Hj. apply Hpinj; lia.
  - apply Nat.eqb_eq. auto.
  - apply Nat.eqb_eq. auto.
  - exact HwfC.
  - apply Nat.eqb_eq. auto.
  - apply Nat.eqb_eq. auto.
  - apply forallb_forall. intros x Hx. destruct (In_nth _ _ 0 Hx) as (i & Hi & <-). apply Nat.ltb_lt. apply Hlt. lia.
  - apply nodupb_of_inj. intros i j Hi Hj. apply Hinj; lia.
  - apply forallb_forall. intros j Hj. apply in_seq in Hj. apply forallb_forall. intros k Hk. apply in_seq in Hk.
    destruct (wf_col_range K Hwf j ltac:(lia)) as [Hle Hhi].
    destruct (Hent j k ltac:(lia) ltac:(lia)) as (Hwin & Hrow & Hval). cbv zeta in Hwin, Hrow, Hval.
    rewrite !andb_true_iff. repeat split.
    + apply Nat.eqb_eq. auto.
    + apply Nat.leb_le. lia.
    + apply Nat.ltb_lt. lia.
    + apply Nat.eqb_eq. rewrite (nth_indep (vals C) 0 nz) by (rewrite LvC; apply Hlt; lia).
      rewrite Hval. rewrite seq_nth by lia. reflexivity.
  - apply forallb_forall. intros col Hcol. apply in_seq in Hcol.
    set (c := nth col (oPinv o) 0).
    assert (Hc : c < N) by (apply H2; lia).
    destruct (HdlC c ltac:(lia)) as [Hne Hlast]. unfold cp in Hne, Hlast.
    destruct (Hdl col ltac:(lia)) as [HneK HlastK]. unfold cp in HneK, HlastK.
    destruct (Hent col (nth (S col) Kp 0 - 1) ltac:(lia) ltac:(lia)) as (Hwin & Hrow & _). cbv zeta in Hwin, Hrow.
    rewrite HlastK in Hwin, Hrow. fold c in Hwin, Hrow. rewrite Nat.max_id in Hwin. rewrite Nat.min_id in Hrow.
    rewrite !andb_true_iff. repeat split.
    + apply Nat.ltb_lt. lia.
    + apply Nat.eqb_eq. set (q := nth (nth (S col) Kp 0 - 1) a2c 0) in *. set (ql := nth (S c) (colptr C) 0 - 1) in *.
      destruct (Nat.eq_dec q ql) as [|Hneq]; auto. exfalso.
      (* the last position of column c of C is the image of a diagonal entry of column col; by stability it is the last one *)
      assert (HCm : forall j, j < N -> nth j (colptr C) 0 <= nth (S j) (colptr C) 0).
      { intros j0 Hj0. apply (wf_col_range C HwfC j0). lia. }
      assert (HKm : forall j, j < N -> nth j Kp 0 <= nth (S j) Kp 0).
      { intros j0 Hj0. apply (wf_col_range K Hwf j0). lia. }
      assert (HqlN : ql < nz).
      { unfold ql. rewrite <- LC. destruct (wf_col_range C HwfC c ltac:(lia)). lia. }
      destruct (fin_inj_surj (fun k => nth k a2c 0) nz Hlt Hinj ql HqlN) as (k' & Hk' & Ek').
      destruct (col_exists Kp N HKm k') as (j' & Hj' & Hr').
      { rewrite (wf_cp0 K Hwf). rewrite <- Hsq at 1. rewrite (wf_cp_last K Hwf). lia. }
      destruct (Hent j' k' Hj' Hr') as (Hwin' & Hrow' & _). cbv zeta in Hwin', Hrow'. rewrite Ek' in Hwin', Hrow'.
      assert (Hi' : nth k' Ki 0 <= j') by (apply upper_only_le; auto; lia).
      set (i' := nth k' Ki 0) in *.
      assert (Hmaxlt : Nat.max (nth i' (oPinv o) 0) (nth j' (oPinv o) 0) < N).
      { destruct (H2 i' ltac:(lia)). destruct (H2 j' Hj'). lia. }
      assert (Ec : Nat.max (nth i' (oPinv o) 0) (nth j' (oPinv o) 0) = c).
      { apply (col_unique (colptr C) N HCm _ c ql); auto; unfold ql; lia. }
      rewrite Hlast in Hrow'.
      assert (Ei : i' = col) by (apply Hpinj; try lia; fold c; lia).
      assert (Ej : j' = col) by (apply Hpinj; try lia; fold c; lia).
      subst j'.
      destruct (Nat.eq_dec k' (nth (S col) Kp 0 - 1)) as [Ekk|Nkk].
      { subst k'. unfold q in Hneq. lia. }
      assert (nth k' a2c 0 < q); [|unfold ql in *; lia].
      unfold q. apply (Hstab col); try lia.
    + apply Nat.eqb_eq. auto.
Qed.
End Addr.

(* ---------- full statements for Properties_C14_perm_sorted.v ---------- *)
Theorem permute_sym_sorted_full {V} (d : V) (A : csc V) (P : list nat) :
  wf_csc A = true -> ncols A = nrows A -> upper_only A = true -> perm_wf P -> length P = nrows A ->
  exists o C a2c, ordering_init P = Ok o /\ permute_sym d A (oPinv o) = Ok (C, a2c) /\
    nrows C = nrows A /\ ncols C = nrows A /\ wf_csc C = true /\ upper_only C = true /\
    (* rows never decrease inside a column *)
    (forall c q1 q2, c < nrows A -> nth c (colptr C) 0 <= q1 -> q1 < q2 -> q2 < nth (S c) (colptr C) 0 ->
       nth q1 (rowind C) 0 <= nth q2 (rowind C) 0) /\
    (* entries of A with the same row in the same column keep their order (stable) *)
    (forall j k1 k2, j < nrows A -> nth j (colptr A) 0 <= k1 -> k1 < k2 -> k2 < nth (S j) (colptr A) 0 ->
       nth k1 (rowind A) 0 = nth k2 (rowind A) 0 -> nth k1 a2c 0 < nth k2 a2c 0) /\
    (* no repeated row index in a column of A: strictly ascending rows *)
    ((forall j p1 p2, j < ncols A ->
        nth j (colptr A) 0 <= p1 < nth (S j) (colptr A) 0 -> nth j (colptr A) 0 <= p2 < nth (S j) (colptr A) 0 ->
        nth p1 (rowind A) 0 = nth p2 (rowind A) 0 -> p1 = p2) ->
     forall c q1 q2, c < nrows A -> nth c (colptr C) 0 <= q1 -> q1 < q2 -> q2 < nth (S c) (colptr C) 0 ->
       nth q1 (rowind C) 0 < nth q2 (rowind C) 0).
Proof.
  intros Hwf Hsq Hup HP HL.
  destruct (permute_sym_sorted_ord d A P Hwf Hsq Hup HP HL)
    as (o & C & a2c & Eo & _ & _ & _ & _ & E & Hpost & Hnd & Hst & Hstab & _).
  destruct Hpost as (Rr & Rc & HwfC & HupC & _). cbn [fst snd] in *.
  exists o, C, a2c. split; auto. split; auto. split; auto. split; auto. split; auto. split; auto.
  split. { intros c q1 q2 Hc. apply Hnd. lia. }
  split; auto. intros Hd c q1 q2 Hc. apply (Hst Hd). lia.
Qed.

Theorem permute_sym_diag_last_full {V} (d : V) (A : csc V) (P : list nat) :
  wf_csc A = true -> ncols A = nrows A -> upper_only A = true -> perm_wf P -> length P = nrows A ->
  (forall j, j < nrows A -> exists k, nth j (colptr A) 0 <= k < nth (S j) (colptr A) 0 /\ nth k (rowind A) 0 = j) ->
  exists o C a2c, ordering_init P = Ok o /\ permute_sym d A (oPinv o) = Ok (C, a2c) /\ ncols C = nrows A /\ diag_is_last C.
Proof.
  intros Hwf Hsq Hup HP HL Hdiag.
  destruct (permute_sym_sorted_ord d A P Hwf Hsq Hup HP HL)
    as (o & C & a2c & Eo & _ & _ & _ & _ & E & Hpost & _ & _ & _ & Hdl).
  destruct Hpost as (_ & Rc & _). cbn [fst] in Rc. exists o, C, a2c. auto.
Qed.

Theorem perm_addr_ok_full {V} (K : csc V) (perm : list nat) :
  wf_csc K = true -> ncols K = nrows K -> upper_only K = true -> diag_is_last K ->
  perm_wf perm -> length perm = nrows K ->
  perm_addr_okb (nrows K) (colptr K) (rowind K) perm = true.
Proof. intros. apply perm_addr_ok; auto. Qed.
